(* PanicFacts2.v -- C04 for the iterator handed to HashMap::extend and for the Into conversion of
   entry_ref (Model/PanicOps2.v): after the unwinding the map is well-formed and holds exactly
   the reference contents one expects -- the pre-state plus the pairs handed over before the
   panic (extend), the pre-state itself (entry_ref).  No axioms. *)
From Coq Require Import ZArith List Bool Lia Permutation.
From HB Require Import RsPrelude Sse2 Gen Group Raw Map Check AssocSpec ArithFacts WFDefs RawOpsSafe RawOpsWF
  MapDefs AssocFacts MapRefineBase MapStepRefine Replace ReplaceFacts PanicOps2.
Import ListNotations.
Open Scope Z_scope.

Section PanicFacts2.
  Variable B : backend.
  Hypothesis HW : WidthOK B.
  Hypothesis HB : BackendSpec B.
  Variable tsize talign : Z.
  Hypothesis HL : LayoutOK tsize talign.
  Variable needs_drop : bool.
  Variable hash_of : Z -> option Z.
  Hypothesis Htot : TotalHash hash_of.
  Variable alloc_refuses : bool.

  Local Notation INV := (Inv B tsize talign hash_of).
  Local Notation ins_all kvs s :=
    (fold_left (fun acc (e : kv) => insert_like acc (k_id e) (k_stamp e) (v_val e)) kvs s).

  Theorem extend_p_refines t s kvs p t' o evs :
    INV t s -> Z.of_nat (length kvs) < 2 ^ 62 ->
    m_extend_p B tsize talign needs_drop true hash_of alloc_refuses t kvs p = Ok (t', o, evs) ->
    INV t' (ins_all (firstn p kvs) s) /\
    o = (if Nat.ltb p (length kvs) then OutUnwind else OutUnit).
  Proof.
    intros HI Hlen E. unfold m_extend_p in E. cbv zeta in E. pose proof HI as (HWF & HA & _).
    set (rn := map_extend_reserve (items t =? 0)%Z (zn (length kvs))) in E.
    assert (Hrn : (0 <= rn < 2 ^ 64)%Z) by (apply extend_reserve_range; unfold zn; lia).
    destruct (reserve B kv tsize talign needs_drop (hasher hash_of) true t rn alloc_refuses)
      as [[[[t1 evs1] tr1] unw1]|] eqn:Er; cbn [bind] in E; [|discriminate].
    destruct (reserve_WF B kv HW HB tsize talign (proj1 HL) (proj2 HL) needs_drop (hasher hash_of)
                (h_total hash_of Htot) t rn alloc_refuses t1 evs1 tr1 unw1 HWF HA Hrn Er)
      as (-> & -> & HWF1 & HA1 & P & _).
    pose proof (inv_perm B tsize talign hash_of t t1 s HI HWF1 HA1 P) as HI1.
    destruct (extend_loop B tsize talign needs_drop true hash_of alloc_refuses t1 (firstn p kvs) [] evs1)
      as [[[t2 o2] evs2]|] eqn:El; cbn [bind] in E; [|discriminate].
    destruct (extend_loop_ok B HW HB tsize talign HL needs_drop hash_of Htot alloc_refuses
                (firstn p kvs) t1 s [] evs1 t2 o2 evs2 HI1 El) as (-> & HI2).
    injection E as <- <- <-. split; [exact HI2|reflexivity].
  Qed.

  (* nothing that was in the map is lost, whatever p: every old key is still there (with its old
     key object; its value is the last one handed over for it, or the old one) *)
  Corollary extend_p_keeps_old t s kvs p t' o evs :
    INV t s -> Z.of_nat (length kvs) < 2 ^ 62 ->
    m_extend_p B tsize talign needs_drop true hash_of alloc_refuses t kvs p = Ok (t', o, evs) ->
    exists s', INV t' s' /\ forall k e, lookup s k = Some e -> exists e', lookup s' k = Some e' /\ k_stamp e' = k_stamp e.
  Proof.
    intros HI Hlen E. destruct (extend_p_refines t s kvs p t' o evs HI Hlen E) as (HI' & _).
    eexists. split; [exact HI'|]. clear HI' E HI.
    generalize (firstn p kvs) as l. intros l. revert s.
    induction l as [|x r IH]; intros s k e He; cbn [fold_left]; [exists e; split; [exact He|reflexivity]|].
    assert (Hx : exists e1, lookup (insert_like s (k_id x) (k_stamp x) (v_val x)) k = Some e1 /\ k_stamp e1 = k_stamp e).
    { unfold insert_like. destruct (Z.eq_dec k (k_id x)) as [->|Hne].
      - rewrite He. unfold put. cbn [lookup k_id]. rewrite Z.eqb_refl. eexists. split; [reflexivity|reflexivity].
      - destruct (lookup s (k_id x)); rewrite lookup_put_other by (cbn [k_id]; exact Hne);
          exists e; split; [exact He|reflexivity|exact He|reflexivity]. }
    destruct Hx as (e1 & H1 & Hs1). destruct (IH _ k e1 H1) as (e' & He' & Hs').
    exists e'. split; [exact He'|congruence].
  Qed.

  (* entry_ref with a panicking Into: unwinds exactly when the key is absent (only the vacant
     branch converts), and then the table is untouched; the occupied branch behaves as entry *)
  Theorem entry_ref_into_p_unchanged t s k occ t' o evs :
    INV t s -> lookup s k = None ->
    m_entry_ref_into_p B hash_of t k occ = Ok (t', o, evs) ->
    t' = t /\ o = OutUnwind /\ evs = [].
  Proof.
    intros HI Hl E. unfold m_entry_ref_into_p in E.
    destruct (m_entry_ok B HW HB tsize talign hash_of Htot t s k occ (fun _ => Ok (t, OutUnwind, [])) HI) as (hv & _ & Hc).
    rewrite Hl in Hc. rewrite Hc in E. injection E as <- <- <-. repeat split.
  Qed.

  Theorem entry_ref_into_p_occupied t s k e occ :
    INV t s -> lookup s k = Some e ->
    exists hv i, (i < nb kv t)%nat /\ slot kv t i = Some e /\
                 m_entry_ref_into_p B hash_of t k occ = occ hv i e.
  Proof.
    intros HI Hl. unfold m_entry_ref_into_p.
    destruct (m_entry_ok B HW HB tsize talign hash_of Htot t s k occ (fun _ => Ok (t, OutUnwind, [])) HI) as (hv & _ & Hc).
    rewrite Hl in Hc. destruct Hc as (i & _ & Hi & Hs & _ & Hc). exists hv, i. split; [exact Hi|]. split; [exact Hs|exact Hc].
  Qed.
  (* a panicking closure in replace_entry_with / and_replace_entry_with: on a present key the entry
     is gone (removed by replace_bucket_with before the closure ran; dropped exactly once by the
     unwinding), everything else is as before; on an absent key the closure never runs *)
  Theorem entry_replace_p_refines t s k t' o evs :
    INV t s -> m_entry_replace_p B needs_drop hash_of t k = Ok (t', o, evs) ->
    match lookup s k with
    | Some e => o = OutUnwind /\ INV t' (delete s k) /\ evs = (if needs_drop then [EvDrop e] else [])
    | None => o = OutNone /\ t' = t /\ evs = []
    end.
  Proof.
    intros HI E. unfold m_entry_replace_p in E.
    match type of E with m_entry _ _ _ _ ?occ ?vac = _ =>
      destruct (m_entry_ok B HW HB tsize talign hash_of Htot t s k occ vac HI) as (hv & _ & Hc) end.
    destruct (lookup s k) as [e|] eqn:El.
    - destruct Hc as (i & Hm & Hi & He & Hk & Ee). rewrite Ee in E. clear Ee.
      pose proof HI as ((Hs & _) & _ & _).
      rewrite (replace_none_eq_remove B kv HW t i (fun _ => None) e Hs Hm Hi (slot_full B t i e Hs Hm Hi He) He eq_refl) in E.
      destruct (remove_ok B HW HB tsize talign hash_of t s i e HI Hm Hi He) as (t1 & Er & HI1).
      rewrite Er in E. cbn [bind] in E. injection E as <- <- <-. rewrite Hk in HI1.
      split; [reflexivity|]. split; [exact HI1|reflexivity].
    - rewrite Hc in E. injection E as <- <- <-. repeat split.
  Qed.

  (* and_modify(f).or_insert(v) with an f that panics before writing: untouched on a present key;
     on an absent key f never runs and the insertion happens as usual *)
  Theorem entry_and_modify_p_refines t s k stamp v t' o evs :
    INV t s ->
    m_entry_and_modify_p B tsize talign needs_drop true hash_of alloc_refuses t k stamp v = Ok (t', o, evs) ->
    match lookup s k with
    | Some _ => o = OutUnwind /\ t' = t /\ evs = []
    | None => o = OutVal v /\ INV t' (put s (mkKV k stamp v))
    end.
  Proof.
    intros HI E. unfold m_entry_and_modify_p in E.
    match type of E with m_entry _ _ _ _ ?occ ?vac = _ =>
      destruct (m_entry_ok B HW HB tsize talign hash_of Htot t s k occ vac HI) as (hv & Hh & Hc) end.
    destruct (lookup s k) as [e|] eqn:El.
    - destruct Hc as (i & _ & _ & _ & _ & Ee). rewrite Ee in E. injection E as <- <- <-. repeat split.
    - rewrite Hc in E.
      exact (vacant_insert_ok B HW HB tsize talign HL needs_drop hash_of Htot alloc_refuses t s hv (mkKV k stamp v)
               (OutVal v) t' o evs HI Hh El E).
  Qed.
End PanicFacts2.

Print Assumptions extend_p_refines.
Print Assumptions extend_p_keeps_old.
Print Assumptions entry_ref_into_p_unchanged.
Print Assumptions entry_ref_into_p_occupied.
Print Assumptions entry_replace_p_refines.
Print Assumptions entry_and_modify_p_refines.
