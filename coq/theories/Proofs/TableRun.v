(* TableRun.v -- lifts table_step_refines (Proofs/TableStepRefine.v) to every history of
   HashTable operations: the reference acceptor MultisetSpec.tspec_accepts accepts every output
   and every post-state of the run, the full invariant holds at the end.  No axioms. *)
From Coq Require Import ZArith List Bool Lia Permutation.
From HB Require Import RsPrelude Sse2 Gen Group Raw Map Check Table AssocSpec MultisetSpec WFDefs MapDefs
  SafeAllocClear ResizeFacts RawOpsSafe MapStepSafe TableStepSafe TableStepRefine.
Import ListNotations.

Section TableRun.
  Variable B : backend.
  Hypothesis HW : WidthOK B.
  Hypothesis HB : BackendSpec B.
  Variable tsize talign : Z.
  Hypothesis HL : LayoutOK tsize talign.
  Variable needs_drop : bool.
  Variable hash_of : Z -> option Z.
  Hypothesis Htot : TotalHash hash_of.
  Variable alloc_refuses : bool.

  Local Notation STEP := (table_step B tsize talign needs_drop true hash_of alloc_refuses).
  Local Notation WFh := (WF B kv (fun e => hash_of (k_id e))).

  (* run a list of operations, collecting outputs and the contents after every step *)
  Fixpoint trun_trace (t : table kv) (ops : list tbl_op) : res (list (tout * list kv) * table kv) :=
    match ops with
    | [] => Ok ([], t)
    | op :: r => '(t1, o, _) <- STEP t op ;;
                 '(tr, t2) <- trun_trace t1 r ;; Ok ((o, occupants kv t1) :: tr, t2)
    end.

  (* the reference acceptor along a trace; the abstract state after a step is the multiset the
     implementation holds (accepted by the step's check) *)
  Fixpoint tspec_run (s : mset) (ops : list tbl_op) (tr : list (tout * list kv)) : bool :=
    match ops, tr with
    | [], [] => true
    | op :: r, (o, post) :: tr' => tspec_accepts hash_of s op o post && tspec_run post r tr'
    | _, _ => false
    end.

  (* the side conditions (closure of remove-and-reinsert only accepts elements of the queried
     hash; values are u64) along the trace *)
  Fixpoint tpre_run (s : mset) (ops : list tbl_op) (tr : list (tout * list kv)) : Prop :=
    match ops, tr with
    | op :: r, (o, post) :: tr' => top_pre hash_of s op /\ tpre_run post r tr'
    | _, _ => True
    end.

  Theorem trun_refines_from : forall ops t tr t',
    WFh t -> TOwn B kv tsize talign t -> Forall top_args_ok ops ->
    trun_trace t ops = Ok (tr, t') -> tpre_run (occupants kv t) ops tr ->
    Forall (fun x => fst x <> TOutUnwind) tr /\ tspec_run (occupants kv t) ops tr = true /\
    WFh t' /\ TOwn B kv tsize talign t'.
  Proof.
    induction ops as [|op r IH]; intros t tr t' HWF HO Hargs E Hpre; cbn [trun_trace] in E.
    - injection E as <- <-. split; [constructor|]. split; [reflexivity|]. split; assumption.
    - inversion Hargs as [|? ? Ha Hr]; subst.
      destruct (STEP t op) as [[[t1 o] evs]|] eqn:Es; cbn [bind] in E; [|discriminate].
      destruct (trun_trace t1 r) as [[tr1 t2]|] eqn:Er; cbn [bind] in E; [|discriminate].
      injection E as <- <-. cbn [tpre_run] in Hpre. destruct Hpre as (Hp & Hpr).
      destruct (table_step_refines B tsize talign needs_drop hash_of alloc_refuses t (occupants kv t) op t1 o evs
                  HW HB HL Htot Ha Hp HWF HO (Permutation_refl _) Es) as (Hu & Hacc & HWF1 & HO1).
      destruct (IH t1 tr1 t2 HWF1 HO1 Hr Er Hpr) as (Hus & Hrun & HWF2 & HO2).
      split; [constructor; [exact Hu | exact Hus]|]. split; [|split; assumption].
      cbn [tspec_run]. rewrite Hacc, Hrun. reflexivity.
  Qed.

  Lemma WF_new_table : WFh (new_table B kv).
  Proof.
    apply WF_no_occupants; [apply new_table_safe | reflexivity].
  Qed.
End TableRun.
