(* RehashWF.v -- rehash_in_place with a LAWFUL hasher (a function that answers on every element of
   the table) re-establishes the full invariant WF = SafeWF + Tags + Reach.

   The classical SwissTable argument.  After prepare_rehash_in_place no byte is FULL.  An element is
   given a FULL byte only when it is placed: in the first group, in probe order of its hash, that
   holds a special byte (find_insert_slot) -- so every group probed before is entirely FULL at that
   moment -- and a FULL byte is never written again during the rehash.  Hence the STRONG
   reachability

     sreach t hash j : every group probed before the window that contains j is entirely FULL

   is stable, and it implies reach_ok (a FULL byte is not EMPTY).

   W1  arithmetic: the probe windows are the blocks of is_in_same_group (same_group_window)
   W2  sreach: sreach_reach, sreach_mono, sreach_placed
   W3  JInv (Tags + sreach for the FULL buckets) through rehash_inner / rehash_outer
   W4  rehash_in_place_WF *)
From Coq Require Import ZArith List Bool Lia Permutation Znumtheory.
From HB Require Import RsPrelude Sse2 Gen Group Raw Check ArithFacts Triangular WFDefs GroupFacts
  ProbeFacts SafeInsertErase FindFacts RehashSafe.
Import ListNotations.
Open Scope nat_scope.

(* ---------------------------------------------------------------------------------------- *)
(* W1: arithmetic of blocks and windows                                                       *)
(* ---------------------------------------------------------------------------------------- *)
(* pos is the start of block r (relative to p0); s lies in the window of pos; i lies in the block
   of s: then i lies in the window of pos *)
Lemma block_window_Z (GW n q p0 pos s i r : Z) :
  (0 < GW -> n = GW * q -> 0 <= r < q ->
   (pos - p0) mod n = GW * r ->
   (s - pos) mod n < GW ->
   ((i - p0) mod n) / GW = ((s - p0) mod n) / GW ->
   (i - pos) mod n < GW)%Z.
Proof.
  intros HG En Hr Hc Hs Hsame.
  assert (Hn : (0 < n)%Z) by nia.
  set (a := ((s - p0) mod n)%Z) in *. set (b := ((i - p0) mod n)%Z) in *.
  assert (Ha : (0 <= a < n)%Z) by (apply Z.mod_pos_bound; exact Hn).
  assert (Hb : (0 <= b < n)%Z) by (apply Z.mod_pos_bound; exact Hn).
  assert (Hcb : (0 <= GW * r /\ GW * r + GW <= n)%Z) by nia.
  assert (E1 : ((s - pos) mod n = (a - GW * r) mod n)%Z).
  { replace (s - pos)%Z with ((s - p0) - (pos - p0))%Z by lia. rewrite Zminus_mod, Hc. reflexivity. }
  assert (E2 : ((i - pos) mod n = (b - GW * r) mod n)%Z).
  { replace (i - pos)%Z with ((i - p0) - (pos - p0))%Z by lia. rewrite Zminus_mod, Hc. reflexivity. }
  rewrite E1 in Hs. rewrite E2.
  assert (Har : (a / GW = r)%Z).
  { destruct (Z.lt_ge_cases a (GW * r)) as [Hlt|Hge].
    - exfalso. rewrite <- (Z.mod_unique (a - GW * r) n (-1) (a - GW * r + n)) in Hs; lia.
    - rewrite Z.mod_small in Hs by lia.
      symmetry. apply (Z.div_unique_pos a GW r (a - GW * r)); lia. }
  rewrite Har in Hsame.
  pose proof (Z.div_mod b GW ltac:(lia)) as Hdm. rewrite Hsame in Hdm.
  pose proof (Z.mod_pos_bound b GW HG) as Hm.
  rewrite Z.mod_small by lia. lia.
Qed.

Lemma zn_window i pos n : pos < n ->
  Z.of_nat ((i + n - pos) mod n) = ((Z.of_nat i - Z.of_nat pos) mod Z.of_nat n)%Z.
Proof.
  intros H. rewrite Nat2Z.inj_mod.
  replace (Z.of_nat (i + n - pos)) with (Z.of_nat i - Z.of_nat pos + 1 * Z.of_nat n)%Z by lia.
  apply Z.mod_add. lia.
Qed.

(* is_in_same_group, as the source computes it, in closed form *)
Lemma n_same_group_Z GW mask i s hash : MaskOK mask ->
  n_same_group GW mask i s hash =
  (((zn i - zn (n_probe_start mask hash)) mod zn (S mask)) / zn GW =?
   ((zn s - zn (n_probe_start mask hash)) mod zn (S mask)) / zn GW)%Z.
Proof.
  intros H. pose proof (MaskOK_bounds mask H) as Hb.
  unfold n_same_group, is_in_same_group. cbv zeta beta.
  unfold n_probe_start. set (P := fst (probe_seq (zn mask) hash)).
  assert (HP : (0 <= P)%Z).
  { unfold P, probe_seq. cbn [fst]. rewrite land_zmask by assumption.
    apply Z.mod_pos_bound. lia. }
  unfold nz, zn at 2 5. rewrite Z2Nat.id by exact HP.
  assert (E : forall x, Z.land (wsub 64 x P) (zn mask) = ((x - P) mod zn (S mask))%Z).
  { intros x. unfold wsub, wrap. rewrite land_zmask by assumption.
    rewrite <- Zmod_div_mod; [reflexivity|lia|apply pow2_pos; lia|apply MaskOK_divides_64; assumption]. }
  rewrite !E. reflexivity.
Qed.

(* ---------------------------------------------------------------------------------------- *)
(* W2: strong reachability                                                                    *)
(* ---------------------------------------------------------------------------------------- *)
Section SReach.
  Variable B : backend.
  Variable T : Type.
  Hypothesis HW : WidthOK B.
  Hypothesis HB : BackendSpec B.
  Local Notation GW := (bk_width B).

  (* reach_loop with "the group is entirely FULL" in place of "the group holds no EMPTY byte" *)
  Fixpoint sreach_loop (fuel : nat) (t : table T) (i pos stride : nat) : bool :=
    match fuel with
    | O => false
    | S f =>
        let nb := buckets T t in
        if ((i + nb - pos) mod nb) <? GW then true else
        match load B T t pos with
        | Ok g => if forallb is_full g
                  then let '(p', s') := n_move_next GW (mask t) pos stride in sreach_loop f t i p' s'
                  else false
        | Fail _ => false
        end
    end.

  Definition sreach (t : table T) (hash : Z) (i : nat) : bool :=
    sreach_loop (probe_fuel B T t) t i (n_probe_start (mask t) hash) 0.

  (* ---- every probe position is the start of a block ---- *)
  Lemma ppos_class t hash j : Shape B T t -> GW <= nb T t -> j <= nb T t / GW ->
    exists q r, (zn (nb T t) = zn GW * q /\ 0 <= r < q /\
      (zn (ppos B T t hash j) - zn (n_probe_start (mask t) hash)) mod zn (nb T t) = zn GW * r)%Z.
  Proof.
    intros HS Hbig Hj.
    pose proof (Shape_MaskOK B T t HS) as HM.
    destruct (MaskOK_zn _ HM) as (k & Hk & Enb & _).
    destruct (GW_pow2 B HW) as (g & Hg & EGW).
    pose proof (n_probe_start_lt (mask t) hash HM) as Hp0.
    pose proof (MaskOK_bounds _ HM) as Hb.
    change (S (mask t)) with (nb T t) in Enb, Hp0, Hb.
    assert (Hgk : (g <= k)%Z).
    { apply (Z.pow_le_mono_r_iff 2); [lia|lia|]. rewrite <- Enb, <- EGW. unfold zn. lia. }
    assert (Hjn : j * GW <= nb T t).
    { pose proof (GW_pos B HW) as HGp. pose proof (Nat.mul_div_le (nb T t) GW ltac:(lia)). nia. }
    assert (Hjb : (zn (j * GW) <= 2 ^ 62)%Z) by (unfold zn in *; lia).
    assert (Hpkg : (0 < 2 ^ (k - g))%Z) by (apply pow2_pos; lia).
    assert (Hpk : (0 < 2 ^ k)%Z) by (apply pow2_pos; lia).
    exists (2 ^ (k - g))%Z, (tri (zn j) mod 2 ^ (k - g))%Z.
    split; [rewrite Enb, EGW, <- Z.pow_add_r by lia; f_equal; lia|].
    split; [apply Z.mod_pos_bound; exact Hpkg|].
    unfold ppos. rewrite (pseq_closed B (mask t) _ j HM Hp0 Hjb). cbn [fst].
    change (S (mask t)) with (nb T t). rewrite Enb, EGW.
    unfold zn at 1. rewrite Z2Nat.id by (apply Z.mod_pos_bound; exact Hpk).
    apply probe_class; [lia| |unfold zn; lia].
    rewrite <- Enb. unfold zn. lia.
  Qed.

  (* the window of a probe position is the block of is_in_same_group *)
  Lemma same_group_window t hash j i s : Shape B T t -> GW <= nb T t -> j <= nb T t / GW ->
    (s + nb T t - ppos B T t hash j) mod nb T t < GW ->
    n_same_group GW (mask t) i s hash = true ->
    (i + nb T t - ppos B T t hash j) mod nb T t < GW.
  Proof.
    intros HS Hbig Hj Hw Hsg.
    pose proof (Shape_MaskOK B T t HS) as HM.
    pose proof (ppos_lt B T t hash j HS) as Hp.
    destruct (ppos_class t hash j HS Hbig Hj) as (q & r & En & Hr & Hc).
    rewrite (n_same_group_Z GW (mask t) i s hash HM) in Hsg. apply Z.eqb_eq in Hsg.
    change (S (mask t)) with (nb T t) in Hsg.
    apply Nat2Z.inj_lt. rewrite zn_window by exact Hp.
    apply Nat2Z.inj_lt in Hw. rewrite zn_window in Hw by exact Hp.
    pose proof (GW_pos B HW) as HGp.
    apply (block_window_Z (zn GW) (zn (nb T t)) q (zn (n_probe_start (mask t) hash))
             (zn (ppos B T t hash j)) (zn s) (zn i) r); try assumption.
    unfold zn. lia.
  Qed.

  (* ---- groups made of FULL bytes ---- *)
  Lemma forallb_full_nth g : length g = GW ->
    (forallb is_full g = true <-> forall j, j < GW -> is_full (nth j g 0%Z) = true).
  Proof.
    intros Hlen. rewrite forallb_forall. split.
    - intros H j Hj. apply H. apply nth_In. lia.
    - intros H x Hin. destruct (In_nth g x 0%Z Hin) as (j & Hj & <-). apply H. lia.
  Qed.

  Lemma group_all_full_big t pos g : Shape B T t -> Mirror B T t -> pos < nb T t -> GW <= nb T t ->
    load B T t pos = Ok g ->
    (forallb is_full g = true <-> forall j, j < GW -> is_full (byte T t ((pos + j) mod nb T t)) = true).
  Proof.
    intros HS HM Hpos Hbig Hg.
    pose proof (load_group_ok B T t pos g HS ltac:(lia) Hg) as [Hlen _].
    rewrite (forallb_full_nth g Hlen). split; intros H j Hj.
    - rewrite <- (view_big B T t pos g HS HM Hpos Hbig Hg j Hj). apply H. exact Hj.
    - rewrite (view_big B T t pos g HS HM Hpos Hbig Hg j Hj). apply H. exact Hj.
  Qed.

  Lemma all_full_no_empty g : forallb is_full g = true -> existsb is_empty g = false.
  Proof.
    intros Hf. destruct (existsb is_empty g) eqn:Ee; [exfalso|reflexivity].
    apply existsb_exists in Ee as (x & Hin & Hx).
    rewrite forallb_forall in Hf. specialize (Hf x Hin).
    rewrite (SafeInsertErase.full_not_empty x Hf) in Hx. discriminate Hx.
  Qed.

  (* ---- sreach_reach ---- *)
  Lemma sreach_loop_reach t i : Shape B T t -> Mirror B T t ->
    forall n pos stride, pos < nb T t ->
      sreach_loop n t i pos stride = true -> reach_loop B T n t i pos stride = true.
  Proof.
    intros HS HM. induction n as [|n IH]; intros pos stride Hpos H; [discriminate H|].
    cbn [sreach_loop reach_loop] in *.
    destruct ((i + buckets T t - pos) mod buckets T t <? GW); [reflexivity|].
    destruct (load B T t pos) as [g|] eqn:Hg; [|discriminate H].
    destruct (forallb is_full g) eqn:Ef; [|discriminate H].
    pose proof (load_group_ok B T t pos g HS ltac:(lia) Hg) as Hok.
    rewrite (bs_any_empty B HB g Hok), (all_full_no_empty g Ef).
    pose proof (move_next_lt B T t HS pos stride) as Hlt.
    destruct (n_move_next GW (mask t) pos stride) as [p' s']. cbn [fst] in Hlt. apply IH; assumption.
  Qed.

  Theorem sreach_reach t hash i : Shape B T t -> Mirror B T t ->
    sreach t hash i = true -> reach_ok B T t hash i = true.
  Proof.
    intros HS HM H. unfold reach_ok, sreach in *.
    apply (sreach_loop_reach t i HS HM); [|exact H].
    apply n_probe_start_lt. apply (Shape_MaskOK B T t HS).
  Qed.

  (* ---- sreach_mono: stability when FULL bytes stay FULL ---- *)
  Definition FullKept (t t' : table T) : Prop :=
    mask t' = mask t /\ Shape B T t' /\ Mirror B T t' /\
    forall j, j < nb T t -> is_full (byte T t j) = true -> is_full (byte T t' j) = true.

  Lemma sreach_loop_mono t t' i : Shape B T t -> Mirror B T t -> FullKept t t' ->
    forall n pos stride, pos < nb T t ->
      sreach_loop n t i pos stride = true -> sreach_loop n t' i pos stride = true.
  Proof.
    intros HS HM (Hmask & HS' & HM' & Hk). pose proof (same_mask_nb T t t' Hmask) as Hnb.
    induction n as [|n IH]; intros pos stride Hpos H; [discriminate H|].
    cbn [sreach_loop] in *. change (buckets T t) with (nb T t) in H.
    change (buckets T t') with (nb T t'). rewrite Hnb, Hmask.
    destruct ((i + nb T t - pos) mod nb T t <? GW) eqn:Ew; [reflexivity|].
    pose proof (window_false_big B T t HS i pos Ew) as Hbig.
    destruct (load_some B T t HS HM pos Hpos) as (g & Hg & Hok). rewrite Hg in H.
    destruct (load_some B T t' HS' HM' pos ltac:(lia)) as (g' & Hg' & Hok'). rewrite Hg'.
    destruct (forallb is_full g) eqn:Ef; [|discriminate H].
    assert (Ef' : forallb is_full g' = true).
    { apply (group_all_full_big t' pos g' HS' HM'); [lia|lia|exact Hg'|].
      intros j Hj. rewrite Hnb. apply Hk.
      - apply Nat.mod_upper_bound. lia.
      - exact (proj1 (group_all_full_big t pos g HS HM Hpos Hbig Hg) Ef j Hj). }
    rewrite Ef'. pose proof (move_next_lt B T t HS pos stride) as Hlt.
    destruct (n_move_next GW (mask t) pos stride) as [p' s']. cbn [fst] in Hlt. apply IH; assumption.
  Qed.

  Theorem sreach_mono t t' hash i : Shape B T t -> Mirror B T t -> FullKept t t' ->
    sreach t hash i = true -> sreach t' hash i = true.
  Proof.
    intros HS HM Hn H. pose proof Hn as (Hmask & _). unfold sreach in *.
    rewrite (same_mask_fuel B T t t' Hmask), Hmask.
    apply (sreach_loop_mono t t' i HS HM Hn); [|exact H].
    apply n_probe_start_lt. apply (Shape_MaskOK B T t HS).
  Qed.

  (* ---- sreach_placed: the first-special-group property of find_insert_slot ---- *)
  Section Placed.
    Variable t : table T.
    Hypothesis HS : Shape B T t.
    Hypothesis HM : Mirror B T t.
    Variable hash : Z.

    Local Notation p0 := (n_probe_start (mask t) hash).
    Local Notation PS j := (pseq B (mask t) p0 j).

    Lemma fis_sreach s i : n_same_group GW (mask t) i s hash = true ->
      forall n j, j + n <= probe_fuel B T t ->
        find_insert_slot_loop B T n t (fst (PS j)) (snd (PS j)) = Ok s ->
        sreach_loop n t i (fst (PS j)) (snd (PS j)) = true.
    Proof.
      intros Hsg. induction n as [|n IH]; intros j Hj H; [discriminate H|].
      cbn [find_insert_slot_loop] in H. cbn [sreach_loop]. change (buckets T t) with (nb T t).
      pose proof (PS_lt B T t HS hash j) as Hpos.
      destruct (load_some B T t HS HM _ Hpos) as (g & Hg & Hok). rewrite Hg in *. cbn [bind] in H.
      destruct (find_insert_slot_in_group B T t g (fst (PS j))) as [s0|] eqn:Es.
      - pose proof (in_group_window B T HB t HS HM _ g s0 s Hpos Hg Es H) as Hw.
        assert (Hwi : (i + nb T t - fst (PS j)) mod nb T t < GW).
        { destruct (Nat.le_gt_cases GW (nb T t)) as [Hbig|Hsmall];
            [|apply (small_window B T t HS); exact Hsmall].
          apply (same_group_window t hash j i s HS Hbig); [|exact Hw|exact Hsg].
          unfold probe_fuel in Hj. change (buckets T t) with (nb T t) in Hj.
          pose proof (Nat.div_str_pos (nb T t) GW ltac:(pose proof (GW_pos B HW); lia)). lia. }
        destruct (Nat.ltb_spec ((i + nb T t - fst (PS j)) mod nb T t) GW); [reflexivity|lia].
      - destruct ((i + nb T t - fst (PS j)) mod nb T t <? GW) eqn:Ew; [reflexivity|].
        pose proof (in_group_none_full B T HB t HS _ g Hpos Hg Es) as Hall.
        rewrite (proj2 (forallb_full_nth g (proj1 Hok)) Hall).
        rewrite <- pseq_S in H |- *. destruct (PS (S j)) as [p' s'] eqn:EPS.
        specialize (IH (S j)). rewrite EPS in IH. cbn [fst snd] in IH. apply IH; [lia|exact H].
    Qed.

    (* every group probed before the window of the returned slot is entirely FULL -- and the
       same for every bucket of the slot's block (is_in_same_group) *)
    Theorem sreach_placed s i : find_insert_slot B T t hash = Ok s ->
      n_same_group GW (mask t) i s hash = true -> sreach t hash i = true.
    Proof.
      intros H Hsg. unfold find_insert_slot in H. unfold sreach.
      apply (fis_sreach s i Hsg (probe_fuel B T t) 0); [lia|exact H].
    Qed.
  End Placed.
End SReach.

(* ---------------------------------------------------------------------------------------- *)
(* W3: the strengthened loop invariant                                                        *)
(* ---------------------------------------------------------------------------------------- *)
Section RehashWF.
  Variable B : backend.
  Variable T : Type.
  Hypothesis HW : WidthOK B.
  Hypothesis HB : BackendSpec B.
  Variable h : T -> option Z.
  Local Notation GW := (bk_width B).

  (* J1 + J2': a FULL bucket carries the tag of its element's hash, and every group probed before
     its window is entirely FULL *)
  Definition JInv (t : table T) : Prop :=
    forall j e hash, j < nb T t -> is_full (byte T t j) = true -> slot T t j = Some e ->
      h e = Some hash -> byte T t j = tag_full hash /\ sreach B T t hash j = true.

  (* the hasher answers on every element of the table *)
  Definition Lawful (t : table T) : Prop :=
    forall e, In e (occupants T t) -> exists hash, h e = Some hash.

  Lemma Lawful_perm t t' : Permutation (occupants T t') (occupants T t) -> Lawful t -> Lawful t'.
  Proof. intros P HL e Hin. apply HL. exact (Permutation_in _ P Hin). Qed.

  (* one placement: FULL buckets keep byte and element, the only new FULL bucket is tgt *)
  Lemma JInv_step t t' tgt e hash :
    Shape B T t -> Mirror B T t -> Shape B T t' -> Mirror B T t' -> mask t' = mask t ->
    JInv t ->
    (forall j, j < nb T t -> is_full (byte T t j) = true ->
       byte T t' j = byte T t j /\ slot T t' j = slot T t j) ->
    (forall j, j < nb T t -> is_full (byte T t j) = false -> is_full (byte T t' j) = true -> j = tgt) ->
    byte T t' tgt = tag_full hash -> slot T t' tgt = Some e -> h e = Some hash ->
    sreach B T t hash tgt = true ->
    JInv t'.
  Proof.
    intros HS HM HS' HM' Em HJ Hkeep Hnew Hb He Hh Hsr.
    assert (Enb : nb T t' = nb T t) by (apply same_mask_nb; exact Em).
    assert (HK : FullKept B T t t').
    { split; [exact Em|]. split; [exact HS'|]. split; [exact HM'|].
      intros j Hj Hf. rewrite (proj1 (Hkeep j Hj Hf)). exact Hf. }
    intros j e' hash' Hj Hf' He' Hh'. rewrite Enb in Hj.
    destruct (is_full (byte T t j)) eqn:Hf.
    - destruct (Hkeep j Hj Hf) as [Eb Es]. rewrite Es in He'.
      destruct (HJ j e' hash' Hj Hf He' Hh') as [X Y].
      split; [rewrite Eb; exact X|]. exact (sreach_mono B T t t' hash' j HS HM HK Y).
    - pose proof (Hnew j Hj Hf Hf') as ->. rewrite He in He'. injection He' as <-.
      rewrite Hh in Hh'. injection Hh' as <-.
      split; [exact Hb|]. exact (sreach_mono B T t t' hash tgt HS HM HK Hsr).
  Qed.

  (* ---- the inner loop ---- *)
  Theorem rehash_inner_J : forall fuel t i,
    RInv B T t -> JInv t -> Lawful t -> i < nb T t -> byte T t i = DELETED -> ndel T t < fuel ->
    exists t', rehash_inner B T h fuel t i = Ok (t', true) /\
      RInv B T t' /\ JInv t' /\ mask t' = mask t /\ items t' = items t /\
      Permutation (occupants T t') (occupants T t) /\
      (forall j, j < nb T t -> byte T t' j = DELETED -> byte T t j = DELETED) /\
      byte T t' i <> DELETED.
  Proof.
    induction fuel as [|f IH]; intros t i HR HJ HL Hi Hbi Hfuel; [lia|].
    pose proof HR as (HS & HM & Hsl & Hit & Hcap).
    pose proof HS as (_ & _ & Hlen & _).
    pose proof (RInv_mask_nz B T t HR) as Hnz.
    destruct (slot T t i) as [e|] eqn:Ee;
      [|exfalso; exact (proj2 (Hsl i Hi) (or_intror Hbi) Ee)].
    assert (HinE : In e (occupants T t)).
    { apply occupants_In. exists i. split; [lia|exact Ee]. }
    destruct (HL e HinE) as (hash & Eh).
    cbn [rehash_inner]. unfold hash_at.
    rewrite (slot_ref_ok T t i e Hnz ltac:(lia) Ee). cbn [bind]. rewrite Eh.
    destruct (find_insert_slot_terminates_E B T HW HB t HS HM (RInv_empty B T t HR) hash)
      as (ni & Eni & Hni & Hsp).
    rewrite Eni. cbn [bind].
    pose proof (ndel_pos B T t i HS Hi Hbi) as Hdpos.
    assert (Hnfi : is_full (byte T t i) = false) by (rewrite Hbi; reflexivity).
    assert (Hnfn : is_full (byte T t ni) = false).
    { rewrite is_special_negb_full in Hsp. destruct (is_full (byte T t ni)); [discriminate Hsp|reflexivity]. }
    destruct (n_same_group GW (mask t) i ni hash) eqn:Esg.
    - (* same probe group: the element stays, the tag is written *)
      destruct (set_ctrl_counts B T HW t i (tag_full hash) HS HM Hi (tag_full_valid hash))
        as (t1 & E1 & Em1 & Esl1 & Eit1 & HS1 & HM1 & Hb1 & Cf & Cd).
      unfold set_ctrl_hash. rewrite E1. cbn [bind].
      rewrite Hbi in Cf, Cd. rewrite tag_full_is_full in Cf.
      rewrite (full_not_deleted _ (tag_full_is_full hash)) in Cd.
      change (is_full DELETED) with false in Cf. change (is_deleted DELETED) with true in Cd.
      cbn [b2n] in Cf, Cd.
      exists t1. split; [reflexivity|]. split.
      { apply (RInv_ext B T t t1 t1 HR HS1 HM1 Em1 Eit1); try reflexivity; [lia|rewrite Esl1; exact Hlen|].
        intros j Hj. unfold slot. rewrite Esl1. fold (slot T t j). rewrite (Hsl j Hj), (Hb1 j Hj).
        destruct (Nat.eqb_spec j i) as [->|Hne]; [|reflexivity].
        rewrite tag_full_is_full. split; intros _; [left; reflexivity|right; exact Hbi]. }
      split.
      { apply (JInv_step t t1 i e hash HS HM HS1 HM1 Em1 HJ).
        - intros j Hj Hf. rewrite (Hb1 j Hj).
          destruct (Nat.eqb_spec j i) as [->|Hne]; [congruence|].
          split; [reflexivity|unfold slot; rewrite Esl1; reflexivity].
        - intros j Hj Hf Hf'. rewrite (Hb1 j Hj) in Hf'.
          destruct (Nat.eqb_spec j i) as [->|Hne]; [reflexivity|congruence].
        - rewrite (Hb1 i Hi), Nat.eqb_refl. reflexivity.
        - unfold slot. rewrite Esl1. exact Ee.
        - exact Eh.
        - exact (sreach_placed B T HW HB t HS HM hash ni i Eni Esg). }
      split; [exact Em1|]. split; [exact Eit1|].
      split; [rewrite !occupants_occ, Esl1; apply Permutation_refl|].
      split.
      { intros j Hj. rewrite (Hb1 j Hj). destruct (Nat.eqb_spec j i) as [->|Hne]; [|intros X; exact X].
        intros _. exact Hbi. }
      rewrite (Hb1 i Hi), Nat.eqb_refl. apply tag_full_not_deleted.
    - assert (Hne : ni <> i).
      { intros ->. rewrite same_group_refl in Esg. discriminate Esg. }
      pose proof (sreach_placed B T HW HB t HS HM hash ni ni Eni (same_group_refl B (mask t) ni hash))
        as Hsr.
      rewrite (ctrl_at_ok B T t HS ni Hni). cbn [bind].
      destruct (set_ctrl_counts B T HW t ni (tag_full hash) HS HM Hni (tag_full_valid hash))
        as (t1 & E1 & Em1 & Esl1 & Eit1 & HS1 & HM1 & Hb1 & Cf1 & Cd1).
      unfold set_ctrl_hash. rewrite E1. cbn [bind].
      rewrite tag_full_is_full in Cf1. rewrite (full_not_deleted _ (tag_full_is_full hash)) in Cd1.
      assert (Enb1 : nb T t1 = nb T t) by (unfold nb, buckets; rewrite Em1; reflexivity).
      assert (Hnz1 : mask t1 <> 0) by (rewrite Em1; exact Hnz).
      assert (Hb1i : byte T t1 i = DELETED).
      { rewrite (Hb1 i Hi). destruct (Nat.eqb_spec i ni); [lia|exact Hbi]. }
      destruct (special_cases _ (byte_valid B T t ni HS ltac:(lia)) Hsp) as [Hpe | Hpd].
      + (* the target bucket was EMPTY: the element moves there *)
        rewrite Hpe in Cf1, Cd1 |- *.
        change (EMPTY =? EMPTY)%Z with true. cbv iota.
        change (is_full EMPTY) with false in Cf1. change (is_deleted EMPTY) with false in Cd1.
        cbn [b2n] in Cf1, Cd1.
        assert (Hnone : slot T t ni = None).
        { destruct (slot T t ni) eqn:En; [|reflexivity]. exfalso.
          assert (X : slot T t ni <> None) by (rewrite En; discriminate).
          apply (Hsl ni Hni) in X. rewrite Hpe in X. destruct X as [X | X]; discriminate X. }
        destruct (set_ctrl_counts B T HW t1 i EMPTY HS1 HM1 ltac:(lia) valid_EMPTY)
          as (t2 & E2 & Em2 & Esl2 & Eit2 & HS2 & HM2 & Hb2 & Cf2 & Cd2).
        rewrite E2. cbn [bind].
        rewrite Hb1i in Cf2, Cd2.
        change (is_full DELETED) with false in Cf2. change (is_deleted DELETED) with true in Cd2.
        change (is_full EMPTY) with false in Cf2. change (is_deleted EMPTY) with false in Cd2.
        cbn [b2n] in Cf2, Cd2.
        assert (Ee2 : slot T t2 i = Some e) by (unfold slot; rewrite Esl2, Esl1; exact Ee).
        assert (Hnz2 : mask t2 <> 0) by (rewrite Em2; exact Hnz1).
        assert (Hlen2 : length (slots t2) = nb T t) by (rewrite Esl2, Esl1; exact Hlen).
        rewrite (slot_ref_ok T t2 i e Hnz2 ltac:(lia) Ee2). cbn [bind].
        rewrite (slot_write_ok T t2 ni e Hnz2 ltac:(lia)). cbn [bind].
        eexists. split; [reflexivity|].
        set (t' := with_slots T (with_slots T t2 _) _).
        assert (Eslots : slots t' = upd (upd (slots t) ni (Some e)) i None).
        { unfold t'. cbn [slots with_slots]. rewrite Esl2, Esl1. reflexivity. }
        assert (Eby : forall j, byte T t' j = byte T t2 j) by reflexivity.
        assert (Hby2 : forall j, j < nb T t ->
                  byte T t2 j = if j =? i then EMPTY else if j =? ni then tag_full hash else byte T t j).
        { intros j Hj. rewrite (Hb2 j ltac:(lia)), (Hb1 j Hj). reflexivity. }
        assert (Esl' : forall j, slot T t' j =
                  if j =? i then None else if j =? ni then Some e else slot T t j).
        { intros j. unfold slot. rewrite Eslots, nth_upd2 by lia. reflexivity. }
        assert (HR' : RInv B T t').
        { apply (RInv_ext B T t t2 t' HR HS2 HM2 (eq_trans Em2 Em1) (eq_trans Eit2 Eit1)); try reflexivity.
          - lia.
          - rewrite Eslots, upd2_length; lia.
          - intros j Hj. rewrite Esl'. rewrite (Hby2 j Hj).
            destruct (Nat.eqb_spec j i) as [->|Hji].
            + split; [intros X; exfalso; apply X; reflexivity|intros [X | X]; discriminate X].
            + destruct (Nat.eqb_spec j ni) as [->|Hjn].
              * rewrite tag_full_is_full. split; [intros _; left; reflexivity|discriminate].
              * apply (Hsl j Hj). }
        split; [exact HR'|]. split.
        { pose proof HR' as (HS' & HM' & _).
          apply (JInv_step t t' ni e hash HS HM HS' HM' (eq_trans Em2 Em1) HJ).
          - intros j Hj Hf. rewrite Eby, (Hby2 j Hj), Esl'.
            destruct (Nat.eqb_spec j i) as [->|Hji]; [congruence|].
            destruct (Nat.eqb_spec j ni) as [->|Hjn]; [congruence|]. split; reflexivity.
          - intros j Hj Hf Hf'. rewrite Eby, (Hby2 j Hj) in Hf'.
            destruct (Nat.eqb_spec j i) as [->|Hji]; [discriminate Hf'|].
            destruct (Nat.eqb_spec j ni) as [->|Hjn]; [reflexivity|congruence].
          - rewrite Eby, (Hby2 ni Hni).
            destruct (Nat.eqb_spec ni i); [contradiction|]. rewrite Nat.eqb_refl. reflexivity.
          - rewrite Esl'. destruct (Nat.eqb_spec ni i); [contradiction|]. rewrite Nat.eqb_refl. reflexivity.
          - exact Eh.
          - exact Hsr. }
        split; [exact (eq_trans Em2 Em1)|]. split; [exact (eq_trans Eit2 Eit1)|].
        split.
        { rewrite !occupants_occ, Eslots.
          pose proof (occ_swap T (slots t) ni i Hne ltac:(lia) ltac:(lia)) as P.
          fold (slot T t i) in P. fold (slot T t ni) in P. rewrite Ee, Hnone in P. exact P. }
        split.
        { intros j Hj. rewrite Eby, (Hby2 j Hj).
          destruct (Nat.eqb_spec j i) as [->|Hji]; [intros _; exact Hbi|].
          destruct (Nat.eqb_spec j ni) as [->|Hjn]; [|intros X; exact X].
          intros X. exfalso. exact (tag_full_not_deleted hash X). }
        rewrite Eby, (Hby2 i Hi), Nat.eqb_refl. discriminate.
      + (* the target bucket holds another not-yet-rehashed element: swap and go on *)
        rewrite Hpd in Cf1, Cd1 |- *.
        change (DELETED =? EMPTY)%Z with false. cbv iota.
        change (is_full DELETED) with false in Cf1. change (is_deleted DELETED) with true in Cd1.
        cbn [b2n] in Cf1, Cd1.
        unfold swap_slots.
        rewrite (nth_error_nth' (slots t1) None) by (rewrite Esl1; lia).
        rewrite (nth_error_nth' (slots t1) None) by (rewrite Esl1; lia).
        rewrite Esl1. cbn [bind].
        set (t2 := with_slots T t1 _).
        assert (Eslots : slots t2 = upd (upd (slots t) i (nth ni (slots t) None)) ni (nth i (slots t) None))
          by reflexivity.
        assert (Eby : forall j, byte T t2 j = byte T t1 j) by reflexivity.
        assert (Esl2 : forall j, slot T t2 j =
                  if j =? ni then slot T t i else if j =? i then slot T t ni else slot T t j).
        { intros j. unfold slot. rewrite Eslots, nth_upd2 by lia. reflexivity. }
        assert (HR2 : RInv B T t2).
        { apply (RInv_ext B T t t1 t2 HR HS1 HM1 Em1 Eit1); try reflexivity.
          - lia.
          - rewrite Eslots, upd2_length; lia.
          - intros j Hj. rewrite Esl2. rewrite (Hb1 j Hj).
            destruct (Nat.eqb_spec j ni) as [->|Hjn].
            + rewrite Ee, tag_full_is_full.
              split; [intros _; left; reflexivity|discriminate].
            + destruct (Nat.eqb_spec j i) as [->|Hji].
              * rewrite (Hsl ni Hni).
                split; intros _; right; assumption.
              * apply (Hsl j Hj). }
        assert (HJ2 : JInv t2).
        { pose proof HR2 as (HS2 & HM2 & _).
          apply (JInv_step t t2 ni e hash HS HM HS2 HM2 Em1 HJ).
          - intros j Hj Hf. rewrite Eby, (Hb1 j Hj), Esl2.
            destruct (Nat.eqb_spec j ni) as [->|Hjn]; [congruence|].
            destruct (Nat.eqb_spec j i) as [->|Hji]; [congruence|]. split; reflexivity.
          - intros j Hj Hf Hf'. rewrite Eby, (Hb1 j Hj) in Hf'.
            destruct (Nat.eqb_spec j ni) as [->|Hjn]; [reflexivity|congruence].
          - rewrite Eby, (Hb1 ni Hni), Nat.eqb_refl. reflexivity.
          - rewrite Esl2, Nat.eqb_refl. exact Ee.
          - exact Eh.
          - exact Hsr. }
        assert (Em2 : mask t2 = mask t) by exact Em1.
        assert (Enb2 : nb T t2 = nb T t) by exact Enb1.
        assert (P2 : Permutation (occupants T t2) (occupants T t)).
        { rewrite !occupants_occ, Eslots. apply occ_swap; lia. }
        destruct (IH t2 i HR2 HJ2 (Lawful_perm t t2 P2 HL) ltac:(lia) ltac:(rewrite Eby; exact Hb1i)
                    ltac:(change (ndel T t2) with (ndel T t1); lia))
          as (t' & E' & HR' & HJ' & Em' & Eit' & P' & Hb' & Hni').
        exists t'. split; [exact E'|]. split; [exact HR'|]. split; [exact HJ'|].
        split; [exact (eq_trans Em' Em2)|]. split; [exact (eq_trans Eit' Eit1)|].
        split; [exact (perm_trans P' P2)|]. split; [|exact Hni'].
        intros j Hj X. specialize (Hb' j ltac:(lia) X). rewrite Eby, (Hb1 j Hj) in Hb'.
        revert Hb'. destruct (Nat.eqb_spec j ni) as [Hjn|Hjn]; intros Hb'; [|exact Hb'].
        exfalso. exact (tag_full_not_deleted hash Hb').
  Qed.

  (* ---- the outer loop ---- *)
  Theorem rehash_outer_J : forall n t i,
    RInv B T t -> JInv t -> Lawful t -> i + n = nb T t -> (forall j, j < i -> byte T t j <> DELETED) ->
    exists t', rehash_outer B T h n t i = Ok (t', true) /\
      RInv B T t' /\ JInv t' /\ mask t' = mask t /\ items t' = items t /\
      Permutation (occupants T t') (occupants T t) /\
      (forall j, j < nb T t -> byte T t' j <> DELETED).
  Proof.
    induction n as [|k IH]; intros t i HR HJ HL Hn Hpre.
    - exists t. split; [reflexivity|]. split; [exact HR|]. split; [exact HJ|]. split; [reflexivity|].
      split; [reflexivity|]. split; [apply Permutation_refl|].
      intros j Hj. apply Hpre. lia.
    - pose proof HR as (HS & _). cbn [rehash_outer].
      rewrite (ctrl_at_ok B T t HS i ltac:(lia)). cbn [bind].
      destruct (Z.eqb_spec (byte T t i) DELETED) as [Hd|Hnd]; cbn [negb]; cbv iota.
      + destruct (rehash_inner_J (S (buckets T t)) t i HR HJ HL ltac:(lia) Hd
                    ltac:(pose proof (ndel_le B T t HS); unfold nb in *; lia))
          as (t1 & E1 & HR1 & HJ1 & Em1 & Eit1 & P1 & Hb1 & Hni).
        rewrite E1. cbn [bind].
        assert (Enb1 : nb T t1 = nb T t) by (unfold nb, buckets; rewrite Em1; reflexivity).
        assert (Hpre1 : forall j, j < S i -> byte T t1 j <> DELETED).
        { intros j Hj. destruct (Nat.eq_dec j i) as [->|Hji]; [exact Hni|].
          intros X. apply (Hpre j ltac:(lia)). apply Hb1; [lia|exact X]. }
        destruct (IH t1 (S i) HR1 HJ1 (Lawful_perm t t1 P1 HL) ltac:(lia) Hpre1)
          as (t' & E' & HR' & HJ' & Em' & Eit' & P' & Hnd').
        exists t'. split; [exact E'|]. split; [exact HR'|]. split; [exact HJ'|].
        split; [exact (eq_trans Em' Em1)|]. split; [exact (eq_trans Eit' Eit1)|].
        split; [exact (perm_trans P' P1)|].
        intros j Hj. apply Hnd'. lia.
      + assert (Hpre1 : forall j, j < S i -> byte T t j <> DELETED).
        { intros j Hj. destruct (Nat.eq_dec j i) as [->|Hji]; [exact Hnd|]. apply Hpre. lia. }
        exact (IH t (S i) HR HJ HL ltac:(lia) Hpre1).
  Qed.

  (* ---------------------------------------------------------------------------------------- *)
  (* W4: rehash_in_place re-establishes WF                                                      *)
  (* ---------------------------------------------------------------------------------------- *)
  (* JInv, a SafeWF table, no DELETED needed: Tags and Reach *)
  Lemma JInv_WF t : SafeWF B T t -> mask t <> 0 -> JInv t -> WF B T h t.
  Proof.
    intros H Hm HJ. destruct (SafeWF_alloc B T t H Hm) as (HS & HM & (_ & _ & _ & Hsl)).
    split; [exact H|]. split.
    - intros i e hash Hi He Hh.
      assert (Hf : is_full (byte T t i) = true) by (apply (Hsl i Hi); rewrite He; discriminate).
      exact (proj1 (HJ i e hash Hi Hf He Hh)).
    - intros i e hash Hi He Hh.
      assert (Hf : is_full (byte T t i) = true) by (apply (Hsl i Hi); rewrite He; discriminate).
      apply (sreach_reach B T HB t hash i HS HM). exact (proj2 (HJ i e hash Hi Hf He Hh)).
  Qed.

  (* MAIN THEOREM.  Only SafeWF is required of the input: the old tags and the old reachability are
     irrelevant, prepare_rehash_in_place wipes every tag. *)
  Theorem rehash_in_place_WF needs_drop t : SafeWF B T t -> mask t <> 0 ->
    (forall e, In e (occupants T t) -> exists hash, h e = Some hash) ->
    exists t', rehash_in_place B T needs_drop h true t = Ok (t', [], false) /\
      WF B T h t' /\ mask t' = mask t /\
      Permutation (occupants T t') (occupants T t) /\ items t' = items t /\
      growth_left t' = (z_cap (mask t) - items t)%Z /\
      (forall j, j < nb T t -> byte T t' j <> DELETED).
  Proof.
    intros H Hm HL.
    assert (Hh : forall e, In e (occupants T t) -> h e <> None).
    { intros e Hin. destruct (HL e Hin) as (hash & ->). discriminate. }
    destruct (rehash_in_place_no_unwind B T HW HB needs_drop h t H Hm Hh)
      as (t' & E & HW' & Em & P & Eit & Egl & Hnd).
    exists t'. split; [exact E|]. split; [|repeat (split; [assumption|]); assumption].
    apply JInv_WF; [exact HW'|rewrite Em; exact Hm|].
    (* replay the run with the strengthened invariant *)
    destruct (prepare_RInv B T HW HB t H Hm) as (t0 & E0 & Em0 & Esl0 & Eit0 & HR0 & Hb0).
    assert (Enb0 : nb T t0 = nb T t) by (unfold nb, buckets; rewrite Em0; reflexivity).
    assert (HJ0 : JInv t0).
    { intros j e hash Hj Hf. rewrite Enb0 in Hj. rewrite (Hb0 j Hj), byte_convert_not_full in Hf.
      discriminate Hf. }
    assert (HL0 : Lawful t0).
    { intros e Hin. apply HL. rewrite !occupants_occ in *. rewrite Esl0 in Hin. exact Hin. }
    unfold rehash_in_place in E. rewrite E0 in E. cbn [bind] in E.
    destruct (rehash_outer_J (buckets T t0) t0 0 HR0 HJ0 HL0 eq_refl ltac:(intros j Hj; lia))
      as (t1 & E1 & HR1 & HJ1 & Em1 & _ & _ & _).
    rewrite E1 in E. cbn [bind] in E. injection E as E. subst t'.
    pose proof HR1 as (HS1 & HM1 & _).
    destruct (SafeWF_alloc B T _ HW' ltac:(rewrite Em; exact Hm)) as (HS' & HM' & _).
    intros j e hash Hj Hf He Hhe.
    destruct (HJ1 j e hash Hj Hf He Hhe) as [X Y]. split; [exact X|].
    apply (sreach_mono B T t1 _ hash j HS1 HM1); [|exact Y].
    split; [reflexivity|]. split; [exact HS'|]. split; [exact HM'|]. intros j' _ F. exact F.
  Qed.
End RehashWF.

Print Assumptions sreach_reach.
Print Assumptions sreach_mono.
Print Assumptions sreach_placed.
Print Assumptions rehash_inner_J.
Print Assumptions rehash_outer_J.
Print Assumptions rehash_in_place_WF.
