(* MapEFacts.v -- the HashMap / HashSet operations with an ARBITRARY key comparison (Model/MapE.v).

     map_step_e_lawful      with the lawful comparison map_step_e IS Map.map_step (by conversion)
     map_step_e_safe        any comparison, any (panicking) hasher: SafeWF / TOwn are kept, the only
                            failures are the two documented library panics
     run_var_e_safe         histories in which hasher AND comparison change at every step
     map_step_e_len_exact   after every step len() = number of FULL buckets = what an iterator yields
     map_step_e_conserves   no element is lost or duplicated by a lying comparison
   No axioms. *)
From Coq Require Import ZArith List Bool Lia Permutation.
From HB Require Import RsPrelude Sse2 Gen Group Raw Map MapE Check ArithFacts WFDefs GroupFacts ProbeFacts
  IterFacts SafeInsertErase SafeAllocClear FindFacts RawOpsSafe MapDefs MapStepSafe.
Import ListNotations.
Open Scope nat_scope.

(* ------------------------------------------------------------------------------------------ *)
(* the lawful instance is the model                                                             *)
(* ------------------------------------------------------------------------------------------ *)
Definition lawful_eqk : Z -> kv -> bool := fun k e => Z.eqb (k_id e) k.

Theorem map_step_e_lawful :
  forall (B : backend) (tsize talign : Z) (needs_drop guard_fix : bool) (hash_of : Z -> option Z)
         (alloc_refuses : bool) (t : table kv) (op : map_op),
  map_step_e B tsize talign needs_drop guard_fix hash_of alloc_refuses (fun k e => Z.eqb (k_id e) k) t op =
  map_step B tsize talign needs_drop guard_fix hash_of alloc_refuses t op.
Proof. intros. reflexivity. Qed.

(* the operations that do not compare keys do not depend on the comparison *)
Definition op_uses_eq (op : map_op) : bool :=
  match op with
  | OpWithCapacity _ | OpClear | OpReserve _ | OpTryReserve _ | OpShrinkTo _ | OpShrinkToFit
  | OpRetain _ _ | OpDrain _ | OpExtractIf _ _ | OpIter | OpIterFold _ | OpLen | OpCapacity
  | OpAllocationSize | OpDropMap => false
  | _ => true
  end.

Theorem map_step_e_eq_irrelevant :
  forall (B : backend) (tsize talign : Z) (needs_drop guard_fix : bool) (hash_of : Z -> option Z)
         (alloc_refuses : bool) (eqk : Z -> kv -> bool) (t : table kv) (op : map_op),
  op_uses_eq op = false ->
  map_step_e B tsize talign needs_drop guard_fix hash_of alloc_refuses eqk t op =
  map_step B tsize talign needs_drop guard_fix hash_of alloc_refuses t op.
Proof. intros B ts ta nd gf h ar eqk t op H. destruct op; try discriminate H; reflexivity. Qed.

Section MapEStepSafe.
  Variable B : backend.
  Hypothesis HW : WidthOK B.
  Hypothesis HB : BackendSpec B.
  Variable tsize talign : Z.
  Hypothesis HL : LayoutOK tsize talign.
  Variable needs_drop : bool.
  Variable hash_of : Z -> option Z.
  Variable alloc_refuses : bool.
  Variable eqk : Z -> kv -> bool.

  Let Hts : (0 <= tsize < 2 ^ 64)%Z := proj1 HL.
  Let Hta : exists a : Z, (0 <= a <= 62)%Z /\ talign = (2 ^ a)%Z := proj2 HL.

  Local Notation SAFE := (SafeWF B kv).
  Local Notation OWN := (TOwn B kv tsize talign).
  Local Notation HSH := (hasher hash_of).
  Local Notation GOOD := (Good B tsize talign).

  (* find with an arbitrary comparison never fails on a valid table; what it returns is a live
     bucket whose element the comparison accepted *)
  Lemma find_cases_e t hash k : SAFE t ->
    exists r, find B kv t hash (eq_key_e eqk k) = Ok r /\
      match r with
      | None => True
      | Some i => mask t <> 0 /\ i < nb kv t /\
                  exists e, slot kv t i = Some e /\ slot_ref kv t i = Ok e /\ eqk k e = true
      end.
  Proof.
    intros H. destruct (Nat.eq_dec (mask t) 0) as [Hm|Hm].
    - rewrite (singleton_eq B t H Hm). exists None. split; [apply (find_singleton B HW HB)|exact I].
    - change (eq_key_e eqk k) with (pure_eq (eqk k)).
      destruct (find_total B kv HW HB t Hm (eqk k) hash H) as (r & E).
      exists r. split; [exact E|]. destruct r as [i|]; [|exact I].
      destruct (find_sound B kv HW HB t Hm _ hash i H E) as (Hi & e & He & Hp).
      split; [exact Hm|]. split; [exact Hi|]. exists e. split; [exact He|].
      split; [exact (some_slot_ref B t i e H Hm Hi He)|exact Hp].
  Qed.

  (* (1) lookups *)
  Lemma get_inner_e_good t k f : SAFE t -> OWN t -> GOOD (f None) ->
    (forall i e, mask t <> 0 -> i < nb kv t -> slot kv t i = Some e -> GOOD (f (Some (i, e)))) ->
    GOOD (get_inner_e B hash_of eqk t k f).
  Proof.
    intros H HA Hn Hs. unfold get_inner_e. destruct (items t =? 0)%Z; [exact Hn|].
    apply Good_with_hash; [exact H|exact HA|]. intros h.
    destruct (find_cases_e t h k H) as (r & E & Hr). rewrite E. cbn [bind].
    destruct r as [i|]; [|exact Hn].
    destruct Hr as (Hm & Hi & e & He & Eref & _). rewrite Eref. cbn [bind]. apply Hs; assumption.
  Qed.

  (* (2) find_or_find_insert_slot based *)
  Lemma m_find_or_slot_e_good t k found vacant : SAFE t -> OWN t ->
    (forall t1 i e evs, SAFE t1 -> OWN t1 -> mask t1 <> 0 -> i < nb kv t1 -> slot kv t1 i = Some e ->
       GOOD (found t1 i e evs)) ->
    (forall t1 h s evs, SAFE t1 -> OWN t1 -> mask t1 <> 0 -> s < nb kv t1 ->
       is_special (byte kv t1 s) = true -> (0 < growth_left t1)%Z -> GOOD (vacant t1 h s evs)) ->
    GOOD (m_find_or_slot_e B tsize talign needs_drop true hash_of alloc_refuses eqk t k found vacant).
  Proof.
    intros H HA Hfound Hvac. unfold m_find_or_slot_e.
    apply Good_with_hash; [exact H|exact HA|]. intros h.
    change (eq_key_e eqk k) with (pure_eq (eqk k)).
    pose proof (find_or_find_insert_slot_spec B kv HW HB tsize talign Hts Hta needs_drop HSH t h
                  (eqk k) alloc_refuses H HA) as Hpost.
    destruct (find_or_find_insert_slot B kv tsize talign needs_drop HSH true t h
                (pure_eq (eqk k)) alloc_refuses) as [[[[t1 evs] unw] r]|er];
      cbn [bind].
    - destruct unw; cbn [foi_post] in Hpost.
      + destruct Hpost as (_ & H1 & HA1 & _). unfold unwind. apply Good_ok; assumption.
      + destruct r as [[i|s]|]; [| |contradiction].
        * destruct Hpost as ((H1 & HA1 & _ & _ & _ & Hm1 & _) & Hi & e & He & _).
          rewrite (some_slot_ref B t1 i e H1 Hm1 Hi He). cbn [bind]. apply Hfound; assumption.
        * destruct Hpost as ((H1 & HA1 & _ & _ & Hg1 & Hm1 & _) & Hs & Hsp).
          apply Hvac; assumption.
    - destruct er; cbn [foi_post] in Hpost; try contradiction; cbn [Good]; [left|right]; reflexivity.
  Qed.

  Lemma m_insert_e_eq t k stamp v :
    m_insert_e B tsize talign needs_drop true hash_of alloc_refuses eqk t k stamp v =
    m_find_or_slot_e B tsize talign needs_drop true hash_of alloc_refuses eqk t k
      (fun t1 i e evs => t2 <- slot_write kv t1 i (mkKV (k_id e) (k_stamp e) v) ;; Ok (t2, OutVal (v_val e), evs))
      (fun t1 h slot evs => t2 <- insert_in_slot B kv t1 h slot (mkKV k stamp v) ;; Ok (t2, OutNone, evs)).
  Proof. reflexivity. Qed.

  Lemma m_insert_e_good t k stamp v : SAFE t -> OWN t ->
    GOOD (m_insert_e B tsize talign needs_drop true hash_of alloc_refuses eqk t k stamp v).
  Proof.
    intros H HA. rewrite m_insert_e_eq. apply m_find_or_slot_e_good; [exact H|exact HA| |].
    - intros t1 i e evs H1 HA1 Hm1 Hi He. exact (write_good B tsize talign t1 i e _ _ _ H1 HA1 Hm1 Hi He).
    - intros t1 h s evs H1 HA1 Hm1 Hs Hsp Hg.
      exact (insert_in_slot_good B HW tsize talign t1 h s _ _ _ H1 HA1 Hm1 Hs Hsp Hg).
  Qed.

  (* (3) entry based *)
  Lemma m_entry_e_good t k occ vac : SAFE t -> OWN t ->
    (forall h i e, mask t <> 0 -> i < nb kv t -> slot kv t i = Some e -> GOOD (occ h i e)) ->
    (forall h, GOOD (vac h)) ->
    GOOD (m_entry_e B hash_of eqk t k occ vac).
  Proof.
    intros H HA Hocc Hvac. unfold m_entry_e.
    apply Good_with_hash; [exact H|exact HA|]. intros h.
    destruct (find_cases_e t h k H) as (r & E & Hr). rewrite E. cbn [bind].
    destruct r as [i|]; [|apply Hvac].
    destruct Hr as (Hm & Hi & e & He & Eref & _). rewrite Eref. cbn [bind]. apply Hocc; assumption.
  Qed.

  (* (4) remove_entry based *)
  Lemma m_remove_entry_e_good t k mk : SAFE t -> OWN t -> GOOD (m_remove_entry_e B hash_of eqk t k mk).
  Proof.
    intros H HA. unfold m_remove_entry_e.
    apply Good_with_hash; [exact H|exact HA|]. intros h.
    destruct (find_cases_e t h k H) as (r & E & Hr). rewrite E. cbn [bind].
    destruct r as [i|]; [|apply Good_ok; assumption].
    destruct Hr as (Hm & Hi & e & He & _).
    exact (remove_good B HW tsize talign t i e mk (fun e => [EvMoveOut e]) H HA Hm Hi He).
  Qed.

  (* extend *)
  Lemma extend_loop_e_good : forall kvs t touched evs, SAFE t -> OWN t ->
    GOOD (extend_loop_e B tsize talign needs_drop true hash_of alloc_refuses eqk t kvs touched evs).
  Proof.
    induction kvs as [|e r IH]; intros t touched evs H HA.
    - cbn [extend_loop_e]. apply Good_ok; assumption.
    - cbn [extend_loop_e].
      pose proof (m_insert_e_good t (k_id e) (k_stamp e) (v_val e) H HA) as Hi.
      destruct (m_insert_e B tsize talign needs_drop true hash_of alloc_refuses eqk t (k_id e) (k_stamp e) (v_val e))
        as [[[t1 o] evs1]|er]; cbn [bind]; [|exact Hi].
      destruct Hi as (H1 & HA1).
      destruct o; try (apply IH; assumption). apply Good_ok; assumption.
  Qed.

  Local Notation STEP t op := (map_step_e B tsize talign needs_drop true hash_of alloc_refuses eqk t op).
  Local Notation STEP0 t op := (map_step B tsize talign needs_drop true hash_of alloc_refuses t op).

  Theorem map_step_e_good t op : op_args_ok op -> SAFE t -> OWN t -> GOOD (STEP t op).
  Proof.
    intros Hargs H HA.
    destruct (op_uses_eq op) eqn:Euse.
    2:{ rewrite (map_step_e_eq_irrelevant B tsize talign needs_drop true hash_of alloc_refuses eqk t op Euse).
        exact (map_step_good B HW HB tsize talign HL needs_drop hash_of alloc_refuses t op Hargs H HA). }
    destruct op as [n|k stamp v|k|k|k|k newv|k|k|k stamp v|k stamp v|k stamp v|k stamp|k stamp add v|k stamp|
                    |n|n|n| |keep bump|kvs|n|sel n| |p| | | | |k stamp|k stamp|k|k|k stamp|k stamp fk|k|k stamp];
      cbn [op_args_ok] in Hargs; try discriminate Euse; clear Euse.
    - (* OpInsert *) cbn [map_step_e]. apply m_insert_e_good; assumption.
    - (* OpGet *) cbn [map_step_e].
      apply get_inner_e_good; [exact H|exact HA|cbv beta; apply Good_ok; assumption|].
      intros i e _ _ _. cbv beta. apply Good_ok; assumption.
    - (* OpGetKeyValue *) cbn [map_step_e].
      apply get_inner_e_good; [exact H|exact HA|cbv beta; apply Good_ok; assumption|].
      intros i e _ _ _. cbv beta. apply Good_ok; assumption.
    - (* OpContains *) cbn [map_step_e].
      apply get_inner_e_good; [exact H|exact HA|cbv beta; apply Good_ok; assumption|].
      intros i e _ _ _. cbv beta. apply Good_ok; assumption.
    - (* OpGetMut *) cbn [map_step_e].
      apply get_inner_e_good; [exact H|exact HA|cbv beta iota; apply Good_ok; assumption|].
      intros i e Hm Hi He. cbv beta iota. exact (write_good B tsize talign t i e _ _ _ H HA Hm Hi He).
    - (* OpRemove *) cbn [map_step_e]. apply m_remove_entry_e_good; assumption.
    - (* OpRemoveEntry *) cbn [map_step_e]. apply m_remove_entry_e_good; assumption.
    - (* OpTryInsert *) cbn [map_step_e]. apply m_entry_e_good; [exact H|exact HA| |].
      + intros h i e _ _ _. apply Good_ok; assumption.
      + intros h. apply (vacant_insert_good B HW HB tsize talign HL); assumption.
    - (* OpEntryOrInsert *) cbn [map_step_e]. apply m_entry_e_good; [exact H|exact HA| |].
      + intros h i e _ _ _. apply Good_ok; assumption.
      + intros h. apply (vacant_insert_good B HW HB tsize talign HL); assumption.
    - (* OpEntryInsert *) cbn [map_step_e]. apply m_entry_e_good; [exact H|exact HA| |].
      + intros h i e Hm Hi He. exact (write_good B tsize talign t i e _ _ _ H HA Hm Hi He).
      + intros h. apply (vacant_insert_good B HW HB tsize talign HL); assumption.
    - (* OpEntryRemove *) cbn [map_step_e]. apply m_entry_e_good; [exact H|exact HA| |].
      + intros h i e Hm Hi He.
        exact (remove_good B HW tsize talign t i e (fun e => OutKV (k_stamp e) (v_val e))
                 (fun e => [EvMoveOut e]) H HA Hm Hi He).
      + intros h. apply Good_ok; assumption.
    - (* OpEntryAndModify *) cbn [map_step_e]. apply m_entry_e_good; [exact H|exact HA| |].
      + intros h i e Hm Hi He. cbv zeta. exact (write_good B tsize talign t i e _ _ _ H HA Hm Hi He).
      + intros h. apply (vacant_insert_good B HW HB tsize talign HL); assumption.
    - (* OpEntryDrop *) cbn [map_step_e]. apply m_entry_e_good; [exact H|exact HA| |].
      + intros h i e _ _ _. apply Good_ok; assumption.
      + intros h. apply Good_ok; assumption.
    - (* OpExtend *) cbn [map_step_e]. cbv zeta.
      pose proof (reserve_cases B HW HB tsize talign HL needs_drop hash_of alloc_refuses t _ H HA
                    (extend_reserve_range (items t =? 0)%Z (length kvs) Hargs)) as Hp.
      match type of Hp with match ?r with _ => _ end => destruct r as [[[[t1 evs] tr] unw]|er] end;
        cbn [bind]; [|exact Hp].
      destruct Hp as (H1 & HA1).
      destruct unw; [unfold unwind; apply Good_ok; assumption|apply extend_loop_e_good; assumption].
    - (* OpSetInsert *) cbn [map_step_e].
      exact (Good_post B tsize talign _
               (fun o => match o with OutNone => OutBool true | OutVal _ => OutBool false | x => x end)
               (fun evs => evs) (m_insert_e_good t k stamp 0%Z H HA)).
    - (* OpSetReplace *) cbn [map_step_e]. apply m_find_or_slot_e_good; [exact H|exact HA| |].
      + intros t1 i e evs H1 HA1 Hm1 Hi He. exact (write_good B tsize talign t1 i e _ _ _ H1 HA1 Hm1 Hi He).
      + intros t1 h s evs H1 HA1 Hm1 Hs Hsp Hg.
        exact (insert_in_slot_good B HW tsize talign t1 h s _ _ _ H1 HA1 Hm1 Hs Hsp Hg).
    - (* OpSetTake *) cbn [map_step_e]. apply m_remove_entry_e_good; assumption.
    - (* OpSetGet *) cbn [map_step_e].
      apply get_inner_e_good; [exact H|exact HA|cbv beta; apply Good_ok; assumption|].
      intros i e _ _ _. cbv beta. apply Good_ok; assumption.
    - (* OpSetGetOrInsert *) cbn [map_step_e]. apply m_find_or_slot_e_good; [exact H|exact HA| |].
      + intros t1 i e evs H1 HA1 _ _ _. apply Good_ok; assumption.
      + intros t1 h s evs H1 HA1 Hm1 Hs Hsp Hg.
        exact (insert_in_slot_good B HW tsize talign t1 h s _ _ _ H1 HA1 Hm1 Hs Hsp Hg).
    - (* OpSetGetOrInsertWith *) cbn [map_step_e]. apply m_find_or_slot_e_good; [exact H|exact HA| |].
      + intros t1 i e evs H1 HA1 _ _ _. apply Good_ok; assumption.
      + intros t1 h s evs H1 HA1 Hm1 Hs Hsp Hg. destruct (Z.eqb fk k).
        * exact (insert_in_slot_good B HW tsize talign t1 h s _ _ _ H1 HA1 Hm1 Hs Hsp Hg).
        * apply Good_ok; assumption.
    - (* OpSetRemove *) cbn [map_step_e].
      exact (Good_post B tsize talign _ (fun o => match o with OutNone => OutBool false | x => x end)
               (fun evs => flat_map (fun e => match e with
                                              | EvMoveOut x => if needs_drop then [EvDrop x] else []
                                              | y => [y] end) evs)
               (m_remove_entry_e_good t k (fun _ => OutBool true) H HA)).
    - (* OpSetToggle *) cbn [map_step_e]. apply m_find_or_slot_e_good; [exact H|exact HA| |].
      + intros t1 i e evs H1 HA1 Hm1 Hi He.
        exact (remove_good B HW tsize talign t1 i e (fun _ => OutBool false)
                 (fun e' => evs ++ (if needs_drop then [EvDrop e'] else [])) H1 HA1 Hm1 Hi He).
      + intros t1 h s evs H1 HA1 Hm1 Hs Hsp Hg.
        exact (insert_in_slot_good B HW tsize talign t1 h s _ _ _ H1 HA1 Hm1 Hs Hsp Hg).
  Qed.
End MapEStepSafe.

(* ------------------------------------------------------------------------------------------ *)
(* the safety theorem                                                                           *)
(* ------------------------------------------------------------------------------------------ *)
Theorem map_step_e_safe :
  forall (B : backend) (tsize talign : Z) (needs_drop : bool) (hash_of : Z -> option Z) (alloc_refuses : bool)
         (eqk : Z -> kv -> bool) (t : table kv) (op : map_op),
  WidthOK B -> BackendSpec B -> LayoutOK tsize talign -> op_args_ok op ->
  SafeWF B kv t -> TOwn B kv tsize talign t ->
  match map_step_e B tsize talign needs_drop true hash_of alloc_refuses eqk t op with
  | Ok (t', o, evs) => SafeWF B kv t' /\ TOwn B kv tsize talign t'
  | Fail e => benign e
  end.
Proof.
  intros B tsize talign needs_drop hash_of alloc_refuses eqk t op HW HB HL Hargs H HA.
  exact (map_step_e_good B HW HB tsize talign HL needs_drop hash_of alloc_refuses eqk t op Hargs H HA).
Qed.

(* ------------------------------------------------------------------------------------------ *)
(* histories: the allocator's answer, the hasher AND the comparison are chosen anew at every step *)
(* ------------------------------------------------------------------------------------------ *)
Fixpoint run_var_e (B : backend) (tsize talign : Z) (needs_drop : bool)
         (t : table kv) (ops : list (map_op * bool * (Z -> option Z) * (Z -> kv -> bool))) : res (table kv) :=
  match ops with
  | [] => Ok t
  | (op, ar, hash_of, eqk) :: r =>
      match map_step_e B tsize talign needs_drop true hash_of ar eqk t op with
      | Ok (t', _, _) => run_var_e B tsize talign needs_drop t' r
      | Fail e => Fail e
      end
  end.

Lemma run_var_e_safe_from :
  forall (B : backend) (tsize talign : Z) (needs_drop : bool),
  WidthOK B -> BackendSpec B -> LayoutOK tsize talign ->
  forall (ops : list (map_op * bool * (Z -> option Z) * (Z -> kv -> bool))) (t : table kv),
  (forall op, In op (map (fun x => fst (fst (fst x))) ops) -> op_args_ok op) ->
  SafeWF B kv t -> TOwn B kv tsize talign t ->
  match run_var_e B tsize talign needs_drop t ops with
  | Ok t' => SafeWF B kv t' /\ TOwn B kv tsize talign t'
  | Fail e => benign e
  end.
Proof.
  intros B tsize talign needs_drop HW HB HL.
  induction ops as [|[[[op ar] hash_of] eqk] r IH]; intros t Hargs H HA.
  - cbn [run_var_e]. split; assumption.
  - cbn [run_var_e].
    pose proof (map_step_e_safe B tsize talign needs_drop hash_of ar eqk t op HW HB HL
                  (Hargs op (or_introl eq_refl)) H HA) as Hstep.
    destruct (map_step_e B tsize talign needs_drop true hash_of ar eqk t op) as [[[t' o] evs]|e].
    + destruct Hstep as (H' & HA'). apply IH; [|exact H'|exact HA'].
      intros op' Hin. apply Hargs. right. exact Hin.
    + exact Hstep.
Qed.

Theorem run_var_e_safe :
  forall (B : backend) (tsize talign : Z) (needs_drop : bool)
         (ops : list (map_op * bool * (Z -> option Z) * (Z -> kv -> bool))),
  WidthOK B -> BackendSpec B -> LayoutOK tsize talign ->
  (forall op, In op (map (fun x => fst (fst (fst x))) ops) -> op_args_ok op) ->
  match run_var_e B tsize talign needs_drop (new_table B kv) ops with
  | Ok t' => SafeWF B kv t' /\ TOwn B kv tsize talign t'
  | Fail e => benign e
  end.
Proof.
  intros B tsize talign needs_drop ops HW HB HL Hargs.
  apply (run_var_e_safe_from B tsize talign needs_drop HW HB HL ops (new_table B kv) Hargs).
  - apply new_table_safe.
  - apply TOwn_new_table.
Qed.

(* with the lawful comparison at every step this is run_var *)
Lemma run_var_e_lawful B tsize talign needs_drop : forall ops t,
  run_var_e B tsize talign needs_drop t (map (fun x => (x, lawful_eqk)) ops) =
  run_var B tsize talign needs_drop t ops.
Proof.
  induction ops as [|[[op ar] hash_of] r IH]; intros t; [reflexivity|].
  cbn [map run_var_e run_var]. unfold lawful_eqk at 1. rewrite map_step_e_lawful.
  destruct (map_step B tsize talign needs_drop true hash_of ar t op) as [[[t' o] evs]|e]; [apply IH|reflexivity].
Qed.

(* ------------------------------------------------------------------------------------------ *)
(* len() is exact after every step                                                              *)
(* ------------------------------------------------------------------------------------------ *)
Theorem map_step_e_len_exact :
  forall (B : backend) (tsize talign : Z) (needs_drop : bool) (hash_of : Z -> option Z) (alloc_refuses : bool)
         (eqk : Z -> kv -> bool) (t : table kv) (op : map_op),
  WidthOK B -> BackendSpec B -> LayoutOK tsize talign -> op_args_ok op ->
  SafeWF B kv t -> TOwn B kv tsize talign t ->
  match map_step_e B tsize talign needs_drop true hash_of alloc_refuses eqk t op with
  | Ok (t', o, evs) =>
      items t' = Z.of_nat (length (full_list t')) /\
      items t' = Z.of_nat (length (occupants kv t')) /\
      exists it, iter_new B kv t' = Ok it /\ iter_all B kv t' it = Ok (full_list t')
  | Fail e => benign e
  end.
Proof.
  intros B tsize talign needs_drop hash_of alloc_refuses eqk t op HW HB HL Hargs H HA.
  pose proof (map_step_e_safe B tsize talign needs_drop hash_of alloc_refuses eqk t op HW HB HL Hargs H HA) as Hs.
  destruct (map_step_e B tsize talign needs_drop true hash_of alloc_refuses eqk t op) as [[[t' o] evs]|e];
    [|exact Hs].
  destruct Hs as (H' & _).
  split; [exact (items_full_list B kv HW t' H')|].
  split; [exact (SafeAllocClear.occupants_length B kv HW t' H')|exact (iter_exact B kv HW HB t' H')].
Qed.

(* ------------------------------------------------------------------------------------------ *)
(* conservation of elements                                                                     *)
(* ------------------------------------------------------------------------------------------ *)
(* the elements an event log reports as dropped by the table or handed back to the caller *)
Definition released {T : Type} (evs : list (event T)) : list T :=
  flat_map (fun ev => match ev with EvDrop x => [x] | EvMoveOut x => [x] | _ => [] end) evs.

(* the key an operation probes for (every operation with a key comparison except OpExtend, which
   is a sequence of OpInsert) *)
Definition op_key (op : map_op) : option Z :=
  match op with
  | OpInsert k _ _ | OpGet k | OpGetKeyValue k | OpContains k | OpGetMut k _ | OpRemove k | OpRemoveEntry k
  | OpTryInsert k _ _ | OpEntryOrInsert k _ _ | OpEntryInsert k _ _ | OpEntryRemove k _
  | OpEntryAndModify k _ _ _ | OpEntryDrop k _ | OpSetInsert k _ | OpSetReplace k _ | OpSetTake k
  | OpSetGet k | OpSetGetOrInsert k _ | OpSetGetOrInsertWith k _ _ | OpSetRemove k | OpSetToggle k _ => Some k
  | _ => None
  end.

(* the element an operation stores when the probe finds no element "equal" to its key *)
Definition op_new (op : map_op) : option kv :=
  match op with
  | OpInsert k s v | OpTryInsert k s v | OpEntryOrInsert k s v | OpEntryInsert k s v
  | OpEntryAndModify k s _ v => Some (mkKV k s v)
  | OpSetInsert k s | OpSetReplace k s | OpSetGetOrInsert k s | OpSetToggle k s => Some (mkKV k s 0%Z)
  | OpSetGetOrInsertWith k s fk => Some (mkKV fk s 0%Z)
  | _ => None
  end.

(* What a completed operation with key k did to the stored elements (t before, t' after, evs its
   event log); `gone` are the elements that left the table.  If T has drop glue the event log
   reports exactly them, each once (without drop glue a hasher panic inside an in-place rehash
   forgets elements silently, as in the source).  Then one of:
     (A) nothing was stored: the old contents are the new contents plus `gone`
         (lookups; removals, gone = [e]; a reserve unwound by a panicking hasher);
     (B) the operation's new element went into a free bucket, nothing else changed;
     (C) an element e that the comparison ACCEPTED (eqk k e = true -- whatever its key id is) was
         updated in place: same position, same key id and stamp (value overwritten), or, for
         HashSet::replace, the new key object with the old value. *)
Definition Conserved (needs_drop : bool) (eqk : Z -> kv -> bool) (k : Z) (newo : option kv)
           (t : table kv) (r : res Map.result) : Prop :=
  match r with
  | Fail _ => True
  | Ok (t', _, evs) =>
      exists gone,
        (needs_drop = true -> released evs = gone) /\
        (Permutation (occupants kv t) (occupants kv t' ++ gone)
         \/ (exists new, newo = Some new /\ gone = [] /\
               Permutation (occupants kv t') (new :: occupants kv t))
         \/ (exists e e' l1 l2, gone = [] /\ eqk k e = true /\
               Permutation (occupants kv t) (l1 ++ e :: l2) /\ occupants kv t' = l1 ++ e' :: l2 /\
               ((k_id e' = k_id e /\ k_stamp e' = k_stamp e) \/
                (exists n, newo = Some n /\ e' = mkKV (k_id n) (k_stamp n) (v_val e)))))
  end.

Lemma released_app {T} (a b : list (event T)) : released (a ++ b) = released a ++ released b.
Proof. apply flat_map_app. Qed.

Lemma released_map_drop {T} (l : list T) : released (map EvDrop l) = l.
Proof. induction l as [|x l IH]; [reflexivity|]. cbn. f_equal. exact IH. Qed.

Section Conserve.
  Variable B : backend.
  Hypothesis HW : WidthOK B.
  Hypothesis HB : BackendSpec B.
  Variable tsize talign : Z.
  Hypothesis HL : LayoutOK tsize talign.
  Variable needs_drop : bool.
  Variable hash_of : Z -> option Z.
  Variable alloc_refuses : bool.
  Variable eqk : Z -> kv -> bool.
  Variable k : Z.
  Variable newo : option kv.

  Let Hts : (0 <= tsize < 2 ^ 64)%Z := proj1 HL.
  Let Hta : exists a : Z, (0 <= a <= 62)%Z /\ talign = (2 ^ a)%Z := proj2 HL.

  Local Notation SAFE := (SafeWF B kv).
  Local Notation OWN := (TOwn B kv tsize talign).
  Local Notation HSH := (hasher hash_of).
  Local Notation CONS := (Conserved needs_drop eqk k newo).

  Lemma released_reserve_evs t t' evs : ReserveEvs B kv tsize talign t t' evs -> released evs = [].
  Proof.
    intros [(-> & _)|(len & al & off & fevs & _ & _ & -> & [(_ & ->)|(_ & l0 & a0 & o0 & _ & -> & _)])];
      reflexivity.
  Qed.

  Lemma Cons_A t t' o evs gone : (needs_drop = true -> released evs = gone) ->
    Permutation (occupants kv t) (occupants kv t' ++ gone) -> CONS t (Ok (t', o, evs)).
  Proof. intros H1 H2. exists gone. split; [exact H1|left; exact H2]. Qed.

  Lemma Cons_perm t t' o evs : released evs = [] -> Permutation (occupants kv t') (occupants kv t) ->
    CONS t (Ok (t', o, evs)).
  Proof.
    intros Hr Hp. apply (Cons_A t t' o evs []); [intros _; exact Hr|].
    rewrite app_nil_r. symmetry. exact Hp.
  Qed.

  Lemma Cons_same t o : CONS t (Ok (t, o, [])).
  Proof. apply Cons_perm; [reflexivity|apply Permutation_refl]. Qed.

  Lemma Cons_with_hash t f : (forall h, CONS t (f h)) -> CONS t (with_hash hash_of t k f).
  Proof.
    intros Hf. unfold with_hash. destruct (hash_of k) as [h|]; [apply Hf|]. unfold unwind. apply Cons_same.
  Qed.

  Lemma Cons_post t (r : res Map.result) (fo : out -> out) (fe : list (event kv) -> list (event kv)) :
    (forall evs, needs_drop = true -> released (fe evs) = released evs) ->
    CONS t r -> CONS t ('(t1, o, evs) <- r ;; Ok (t1, fo o, fe evs)).
  Proof.
    intros Hfe. destruct r as [[[t1 o] evs]|e]; cbn [bind Conserved]; [|exact (fun x => x)].
    intros (gone & Hg & Hrest). exists gone. split; [|exact Hrest].
    intros Hnd. rewrite (Hfe evs Hnd). exact (Hg Hnd).
  Qed.

  (* a reserve unwound by a panicking hasher *)
  Lemma unwind_cons t t1 evs o : ReserveUnwind kv needs_drop HSH t t1 evs -> CONS t (Ok (t1, o, evs)).
  Proof.
    intros (_ & [(_ & dropped & Hperm & Eevs & _)|(-> & len & al & -> & _)]).
    - apply (Cons_A t t1 o evs dropped); [|exact Hperm].
      intros Hnd. rewrite Eevs, Hnd. apply released_map_drop.
    - apply Cons_perm; [reflexivity|apply Permutation_refl].
  Qed.

  (* overwriting the element of a live bucket *)
  Lemma write_cons t t1 i e e' o evs : SAFE t1 -> mask t1 <> 0 -> i < nb kv t1 -> slot kv t1 i = Some e ->
    eqk k e = true -> Permutation (occupants kv t1) (occupants kv t) -> released evs = [] ->
    ((k_id e' = k_id e /\ k_stamp e' = k_stamp e) \/
     (exists n, newo = Some n /\ e' = mkKV (k_id n) (k_stamp n) (v_val e))) ->
    CONS t (t2 <- slot_write kv t1 i e' ;; Ok (t2, o, evs)).
  Proof.
    intros H1 Hm Hi He Hq Hp Hr Hsh.
    destruct (slot_write_value_safe B kv t1 i e e' H1 Hm Hi He)
      as (t2 & E & _ & _ & _ & _ & _ & _ & _ & _ & (l1 & l2 & Eo & Eo') & _).
    rewrite E. cbn [bind]. exists []. split; [intros _; exact Hr|]. right; right.
    exists e, e', l1, l2. split; [reflexivity|]. split; [exact Hq|].
    split; [rewrite <- Eo; symmetry; exact Hp|]. split; [exact Eo'|exact Hsh].
  Qed.

  (* removing the element of a live bucket *)
  Lemma remove_cons t t1 i e (fo : kv -> out) (fe : kv -> list (event kv)) :
    SAFE t1 -> mask t1 <> 0 -> i < nb kv t1 -> slot kv t1 i = Some e ->
    Permutation (occupants kv t1) (occupants kv t) ->
    (forall x, needs_drop = true -> released (fe x) = [x]) ->
    CONS t ('(e', t2) <- remove B kv t1 i ;; Ok (t2, fo e', fe e')).
  Proof.
    intros H1 Hm Hi He Hp Hr.
    pose proof (slot_some_full B t1 i e H1 Hm Hi He) as Hf.
    destruct (remove_safe B kv HW t1 i H1 Hm Hi Hf) as (e' & t2 & E & _ & _ & _ & _ & _ & _ & _ & Hperm & _).
    rewrite E. cbn [bind]. apply (Cons_A t t2 _ _ [e']); [apply Hr|].
    apply Permutation_trans with (e' :: occupants kv t2); [|apply Permutation_cons_append].
    apply Permutation_trans with (occupants kv t1); [symmetry; exact Hp|exact Hperm].
  Qed.

  (* filling an insert slot *)
  Lemma insert_in_slot_cons t t1 h s v o evs : SAFE t1 -> mask t1 <> 0 -> s < nb kv t1 ->
    is_special (byte kv t1 s) = true -> (0 < growth_left t1)%Z ->
    Permutation (occupants kv t1) (occupants kv t) -> released evs = [] -> newo = Some v ->
    CONS t (t2 <- insert_in_slot B kv t1 h s v ;; Ok (t2, o, evs)).
  Proof.
    intros H1 Hm Hs Hsp Hg Hp Hr Hn.
    destruct (insert_in_slot_safe B kv HW t1 s h v H1 Hm Hs Hsp (fun _ => Hg))
      as (t2 & E & _ & _ & _ & _ & _ & _ & _ & Hperm).
    rewrite E. cbn [bind]. exists []. split; [intros _; exact Hr|]. right; left.
    exists v. split; [exact Hn|]. split; [reflexivity|].
    apply Permutation_trans with (v :: occupants kv t1); [exact Hperm|apply perm_skip; exact Hp].
  Qed.

  Lemma get_inner_e_cons t f : SAFE t -> CONS t (f None) ->
    (forall i e, mask t <> 0 -> i < nb kv t -> slot kv t i = Some e -> eqk k e = true ->
       CONS t (f (Some (i, e)))) ->
    CONS t (get_inner_e B hash_of eqk t k f).
  Proof.
    intros H Hn Hs. unfold get_inner_e. destruct (items t =? 0)%Z; [exact Hn|].
    apply Cons_with_hash. intros h.
    destruct (find_cases_e B HW HB eqk t h k H) as (r & E & Hr). rewrite E. cbn [bind].
    destruct r as [i|]; [|exact Hn].
    destruct Hr as (Hm & Hi & e & He & Eref & Hq). rewrite Eref. cbn [bind]. apply Hs; assumption.
  Qed.

  Lemma m_entry_e_cons t occ vac : SAFE t ->
    (forall h i e, mask t <> 0 -> i < nb kv t -> slot kv t i = Some e -> eqk k e = true -> CONS t (occ h i e)) ->
    (forall h, CONS t (vac h)) ->
    CONS t (m_entry_e B hash_of eqk t k occ vac).
  Proof.
    intros H Hocc Hvac. unfold m_entry_e. apply Cons_with_hash. intros h.
    destruct (find_cases_e B HW HB eqk t h k H) as (r & E & Hr). rewrite E. cbn [bind].
    destruct r as [i|]; [|apply Hvac].
    destruct Hr as (Hm & Hi & e & He & Eref & Hq). rewrite Eref. cbn [bind]. apply Hocc; assumption.
  Qed.

  Lemma m_remove_entry_e_cons t mk : SAFE t -> CONS t (m_remove_entry_e B hash_of eqk t k mk).
  Proof.
    intros H. unfold m_remove_entry_e. apply Cons_with_hash. intros h.
    destruct (find_cases_e B HW HB eqk t h k H) as (r & E & Hr). rewrite E. cbn [bind].
    destruct r as [i|]; [|apply Cons_same].
    destruct Hr as (Hm & Hi & e & He & _).
    apply (remove_cons t t i e mk (fun e => [EvMoveOut e]) H Hm Hi He (Permutation_refl _)).
    intros x _. reflexivity.
  Qed.

  Lemma m_find_or_slot_e_cons t found vacant : SAFE t -> OWN t ->
    (forall t1 i e evs, SAFE t1 -> mask t1 <> 0 -> i < nb kv t1 -> slot kv t1 i = Some e -> eqk k e = true ->
       Permutation (occupants kv t1) (occupants kv t) -> released evs = [] -> CONS t (found t1 i e evs)) ->
    (forall t1 h s evs, SAFE t1 -> mask t1 <> 0 -> s < nb kv t1 -> is_special (byte kv t1 s) = true ->
       (0 < growth_left t1)%Z -> Permutation (occupants kv t1) (occupants kv t) -> released evs = [] ->
       CONS t (vacant t1 h s evs)) ->
    CONS t (m_find_or_slot_e B tsize talign needs_drop true hash_of alloc_refuses eqk t k found vacant).
  Proof.
    intros H HA Hfound Hvac. unfold m_find_or_slot_e. apply Cons_with_hash. intros h.
    change (eq_key_e eqk k) with (pure_eq (eqk k)).
    pose proof (find_or_find_insert_slot_spec B kv HW HB tsize talign Hts Hta needs_drop HSH t h
                  (eqk k) alloc_refuses H HA) as Hpost.
    destruct (find_or_find_insert_slot B kv tsize talign needs_drop HSH true t h
                (pure_eq (eqk k)) alloc_refuses) as [[[[t1 evs] unw] r]|er];
      cbn [bind]; [|exact I].
    destruct unw; cbn [foi_post] in Hpost.
    - destruct Hpost as (_ & _ & _ & Hu). unfold unwind. exact (unwind_cons t t1 evs _ Hu).
    - destruct r as [[i|s]|]; [| |contradiction].
      + destruct Hpost as ((H1 & _ & Hp & _ & _ & Hm1 & Hevs & _) & Hi & e & He & Hq).
        rewrite (some_slot_ref B t1 i e H1 Hm1 Hi He). cbn [bind].
        apply Hfound; try assumption. exact (released_reserve_evs t t1 evs Hevs).
      + destruct Hpost as ((H1 & _ & Hp & _ & Hg1 & Hm1 & Hevs & _) & Hs & Hsp).
        apply Hvac; try assumption. exact (released_reserve_evs t t1 evs Hevs).
  Qed.

  Lemma vacant_insert_cons t h e o : SAFE t -> OWN t -> newo = Some e ->
    CONS t (vacant_insert B tsize talign needs_drop true hash_of alloc_refuses t h e o).
  Proof.
    intros H HA Hn. unfold vacant_insert.
    pose proof (insert_spec B kv HW HB tsize talign Hts Hta needs_drop HSH t h e alloc_refuses H HA) as Hpost.
    destruct (Raw.insert B kv tsize talign needs_drop HSH true t h e alloc_refuses) as [[[[t1 evs] unw] r]|er];
      cbn [bind]; [|exact I].
    destruct unw; cbn [insert_post] in Hpost.
    - destruct Hpost as (_ & _ & _ & Hu). unfold unwind. exact (unwind_cons t t1 evs _ Hu).
    - destruct r as [s|]; [|contradiction].
      destruct Hpost as (_ & _ & _ & _ & _ & Hperm & _ & Hevs & _).
      exists []. split; [intros _; exact (released_reserve_evs t t1 evs Hevs)|]. right; left.
      exists e. split; [exact Hn|]. split; [reflexivity|exact Hperm].
  Qed.
End Conserve.

Theorem map_step_e_conserves :
  forall (B : backend) (tsize talign : Z) (needs_drop : bool) (hash_of : Z -> option Z) (alloc_refuses : bool)
         (eqk : Z -> kv -> bool) (t : table kv) (op : map_op) (k : Z),
  WidthOK B -> BackendSpec B -> LayoutOK tsize talign ->
  SafeWF B kv t -> TOwn B kv tsize talign t -> op_key op = Some k ->
  Conserved needs_drop eqk k (op_new op) t
    (map_step_e B tsize talign needs_drop true hash_of alloc_refuses eqk t op).
Proof.
  intros B tsize talign needs_drop hash_of alloc_refuses eqk t op k HW HB HL H HA Hk.
  destruct op as [n|k0 stamp v|k0|k0|k0|k0 newv|k0|k0|k0 stamp v|k0 stamp v|k0 stamp v|k0 stamp|k0 stamp add v|k0 stamp|
                  |n|n|n| |keep bump|kvs|n|sel n| |p| | | | |k0 stamp|k0 stamp|k0|k0|k0 stamp|k0 stamp fk|k0|k0 stamp];
    cbn [op_key] in Hk; try discriminate Hk; injection Hk as ->; cbn [op_new map_step_e].
  - (* OpInsert *) rewrite m_insert_e_eq.
    apply (m_find_or_slot_e_cons B HW HB tsize talign HL); [exact H|exact HA| |].
    + intros t1 i e evs H1 Hm1 Hi He Hq Hp Hr.
      apply (write_cons B needs_drop eqk k _ t t1 i e _ _ evs H1 Hm1 Hi He Hq Hp Hr). left. split; reflexivity.
    + intros t1 h s evs H1 Hm1 Hs Hsp Hg Hp Hr.
      exact (insert_in_slot_cons B HW needs_drop eqk k _ t t1 h s _ _ evs H1 Hm1 Hs Hsp Hg Hp Hr eq_refl).
  - (* OpGet *) apply (get_inner_e_cons B HW HB); [exact H|apply Cons_same|]. intros. apply Cons_same.
  - (* OpGetKeyValue *) apply (get_inner_e_cons B HW HB); [exact H|apply Cons_same|]. intros. apply Cons_same.
  - (* OpContains *) apply (get_inner_e_cons B HW HB); [exact H|apply Cons_same|]. intros. apply Cons_same.
  - (* OpGetMut *) apply (get_inner_e_cons B HW HB); [exact H|apply Cons_same|].
    intros i e Hm Hi He Hq. cbv beta iota.
    apply (write_cons B needs_drop eqk k _ t t i e _ _ [] H Hm Hi He Hq (Permutation_refl _) eq_refl).
    left. split; reflexivity.
  - (* OpRemove *) apply (m_remove_entry_e_cons B HW HB). exact H.
  - (* OpRemoveEntry *) apply (m_remove_entry_e_cons B HW HB). exact H.
  - (* OpTryInsert *) apply (m_entry_e_cons B HW HB); [exact H| |].
    + intros. apply Cons_same.
    + intros h. apply (vacant_insert_cons B HW HB tsize talign HL); [exact H|exact HA|reflexivity].
  - (* OpEntryOrInsert *) apply (m_entry_e_cons B HW HB); [exact H| |].
    + intros. apply Cons_same.
    + intros h. apply (vacant_insert_cons B HW HB tsize talign HL); [exact H|exact HA|reflexivity].
  - (* OpEntryInsert *) apply (m_entry_e_cons B HW HB); [exact H| |].
    + intros h i e Hm Hi He Hq.
      apply (write_cons B needs_drop eqk k _ t t i e _ _ [] H Hm Hi He Hq (Permutation_refl _) eq_refl).
      left. split; reflexivity.
    + intros h. apply (vacant_insert_cons B HW HB tsize talign HL); [exact H|exact HA|reflexivity].
  - (* OpEntryRemove *) apply (m_entry_e_cons B HW HB); [exact H| |].
    + intros h i e Hm Hi He Hq.
      apply (remove_cons B HW needs_drop eqk k _ t t i e (fun e => OutKV (k_stamp e) (v_val e))
               (fun e => [EvMoveOut e]) H Hm Hi He (Permutation_refl _)).
      intros x _. reflexivity.
    + intros h. apply Cons_same.
  - (* OpEntryAndModify *) apply (m_entry_e_cons B HW HB); [exact H| |].
    + intros h i e Hm Hi He Hq. cbv zeta.
      apply (write_cons B needs_drop eqk k _ t t i e _ _ [] H Hm Hi He Hq (Permutation_refl _) eq_refl).
      left. split; reflexivity.
    + intros h. apply (vacant_insert_cons B HW HB tsize talign HL); [exact H|exact HA|reflexivity].
  - (* OpEntryDrop *) apply (m_entry_e_cons B HW HB); [exact H| |]; intros; apply Cons_same.
  - (* OpSetInsert *)
    apply (Cons_post needs_drop eqk k _ t _
             (fun o => match o with OutNone => OutBool true | OutVal _ => OutBool false | x => x end)
             (fun evs => evs)); [reflexivity|].
    rewrite m_insert_e_eq.
    apply (m_find_or_slot_e_cons B HW HB tsize talign HL); [exact H|exact HA| |].
    + intros t1 i e evs H1 Hm1 Hi He Hq Hp Hr.
      apply (write_cons B needs_drop eqk k _ t t1 i e _ _ evs H1 Hm1 Hi He Hq Hp Hr). left. split; reflexivity.
    + intros t1 h s evs H1 Hm1 Hs Hsp Hg Hp Hr.
      exact (insert_in_slot_cons B HW needs_drop eqk k _ t t1 h s _ _ evs H1 Hm1 Hs Hsp Hg Hp Hr eq_refl).
  - (* OpSetReplace *)
    apply (m_find_or_slot_e_cons B HW HB tsize talign HL); [exact H|exact HA| |].
    + intros t1 i e evs H1 Hm1 Hi He Hq Hp Hr.
      apply (write_cons B needs_drop eqk k _ t t1 i e _ _ evs H1 Hm1 Hi He Hq Hp Hr).
      right. eexists. split; reflexivity.
    + intros t1 h s evs H1 Hm1 Hs Hsp Hg Hp Hr.
      exact (insert_in_slot_cons B HW needs_drop eqk k _ t t1 h s _ _ evs H1 Hm1 Hs Hsp Hg Hp Hr eq_refl).
  - (* OpSetTake *) apply (m_remove_entry_e_cons B HW HB). exact H.
  - (* OpSetGet *) apply (get_inner_e_cons B HW HB); [exact H|apply Cons_same|]. intros. apply Cons_same.
  - (* OpSetGetOrInsert *)
    apply (m_find_or_slot_e_cons B HW HB tsize talign HL); [exact H|exact HA| |].
    + intros t1 i e evs H1 Hm1 Hi He Hq Hp Hr. apply Cons_perm; assumption.
    + intros t1 h s evs H1 Hm1 Hs Hsp Hg Hp Hr.
      exact (insert_in_slot_cons B HW needs_drop eqk k _ t t1 h s _ _ evs H1 Hm1 Hs Hsp Hg Hp Hr eq_refl).
  - (* OpSetGetOrInsertWith *)
    apply (m_find_or_slot_e_cons B HW HB tsize talign HL); [exact H|exact HA| |].
    + intros t1 i e evs H1 Hm1 Hi He Hq Hp Hr. apply Cons_perm; assumption.
    + intros t1 h s evs H1 Hm1 Hs Hsp Hg Hp Hr. destruct (Z.eqb fk k).
      * exact (insert_in_slot_cons B HW needs_drop eqk k _ t t1 h s _ _ evs H1 Hm1 Hs Hsp Hg Hp Hr eq_refl).
      * apply Cons_perm; assumption.
  - (* OpSetRemove *)
    apply (Cons_post needs_drop eqk k _ t _ (fun o => match o with OutNone => OutBool false | x => x end)
             (fun evs => flat_map (fun e => match e with
                                            | EvMoveOut x => if needs_drop then [EvDrop x] else []
                                            | y => [y] end) evs)).
    + intros evs Hnd. rewrite Hnd. induction evs as [|ev r IH]; [reflexivity|].
      cbn [flat_map]. rewrite released_app, IH. destruct ev; reflexivity.
    + apply (m_remove_entry_e_cons B HW HB). exact H.
  - (* OpSetToggle *)
    apply (m_find_or_slot_e_cons B HW HB tsize talign HL); [exact H|exact HA| |].
    + intros t1 i e evs H1 Hm1 Hi He Hq Hp Hr.
      apply (remove_cons B HW needs_drop eqk k _ t t1 i e (fun _ => OutBool false)
               (fun e' => evs ++ (if needs_drop then [EvDrop e'] else [])) H1 Hm1 Hi He Hp).
      intros x Hnd. rewrite released_app, Hr, Hnd. reflexivity.
    + intros t1 h s evs H1 Hm1 Hs Hsp Hg Hp Hr.
      exact (insert_in_slot_cons B HW needs_drop eqk k _ t t1 h s _ _ evs H1 Hm1 Hs Hsp Hg Hp Hr eq_refl).
Qed.

(* ------------------------------------------------------------------------------------------ *)
(* conservation: insert with its outputs, and extend (a reserve, then one insert per element)   *)
(* ------------------------------------------------------------------------------------------ *)
(* what is left of an element when the value is overwritten: the key object *)
Definition ks (e : kv) : Z * Z := (k_id e, k_stamp e).

(* HashMap::insert(k, v) with an arbitrary comparison, by output:
     OutUnwind   the hasher panicked (on k, or inside the reserve(1)): nothing stored;
     OutNone     (k, s, v) went into a free bucket;
     OutVal old  an element e ACCEPTED by the comparison kept its key object, got value v, and
                 old is its previous value *)
Definition InsertSpec (needs_drop : bool) (eqk : Z -> kv -> bool) (k s v : Z) (t : table kv)
           (r : res Map.result) : Prop :=
  match r with
  | Fail _ => True
  | Ok (t1, o, evs) =>
      (o = OutUnwind /\ exists gone, Permutation (occupants kv t) (occupants kv t1 ++ gone) /\
                                     (needs_drop = true -> released evs = gone))
      \/ (o = OutNone /\ released evs = [] /\ Permutation (occupants kv t1) (mkKV k s v :: occupants kv t))
      \/ (exists e l1 l2, o = OutVal (v_val e) /\ released evs = [] /\ eqk k e = true /\
            Permutation (occupants kv t) (l1 ++ e :: l2) /\
            occupants kv t1 = l1 ++ mkKV (k_id e) (k_stamp e) v :: l2)
  end.

(* extend(kvs): `added` (some of kvs, in order of insertion) were stored in free buckets, the others
   overwrote the value of an element the comparison accepted; up to values (key objects only) the
   old contents plus `added` are the new contents plus `gone`, and nothing is gone unless the
   hasher panicked; what is gone was reported as dropped *)
Definition ExtendSpec (needs_drop : bool) (kvs : list kv) (t : table kv) (r : res Map.result) : Prop :=
  match r with
  | Fail _ => True
  | Ok (t', o, evs) =>
      exists added gone, incl added kvs /\ length added <= length kvs /\
        Permutation (map ks (added ++ occupants kv t)) (map ks (occupants kv t' ++ gone)) /\
        (o <> OutUnwind -> gone = []) /\
        (needs_drop = true -> incl gone (released evs))
  end.

Section ExtendConserve.
  Variable B : backend.
  Hypothesis HW : WidthOK B.
  Hypothesis HB : BackendSpec B.
  Variable tsize talign : Z.
  Hypothesis HL : LayoutOK tsize talign.
  Variable needs_drop : bool.
  Variable hash_of : Z -> option Z.
  Variable alloc_refuses : bool.
  Variable eqk : Z -> kv -> bool.

  Let Hts : (0 <= tsize < 2 ^ 64)%Z := proj1 HL.
  Let Hta : exists a : Z, (0 <= a <= 62)%Z /\ talign = (2 ^ a)%Z := proj2 HL.

  Local Notation SAFE := (SafeWF B kv).
  Local Notation OWN := (TOwn B kv tsize talign).
  Local Notation HSH := (hasher hash_of).

  Lemma m_insert_e_spec t k s v : SAFE t -> OWN t ->
    InsertSpec needs_drop eqk k s v t
      (m_insert_e B tsize talign needs_drop true hash_of alloc_refuses eqk t k s v).
  Proof.
    intros H HA. unfold m_insert_e, with_hash. destruct (hash_of k) as [h|].
    2:{ unfold unwind. left. split; [reflexivity|]. exists [].
        split; [rewrite app_nil_r; apply Permutation_refl|intros _; reflexivity]. }
    change (eq_key_e eqk k) with (pure_eq (eqk k)).
    pose proof (find_or_find_insert_slot_spec B kv HW HB tsize talign Hts Hta needs_drop HSH t h
                  (eqk k) alloc_refuses H HA) as Hpost.
    destruct (find_or_find_insert_slot B kv tsize talign needs_drop HSH true t h
                (pure_eq (eqk k)) alloc_refuses) as [[[[t1 evs] unw] r]|er];
      cbn [bind]; [|exact I].
    destruct unw; cbn [foi_post] in Hpost.
    - destruct Hpost as (_ & _ & _ & Hu). unfold unwind. left. split; [reflexivity|].
      destruct Hu as (_ & [(_ & dropped & Hperm & Eevs & _)|(-> & len & al & -> & _)]).
      + exists dropped. split; [exact Hperm|]. intros Hnd. rewrite Eevs, Hnd. apply released_map_drop.
      + exists []. split; [rewrite app_nil_r; apply Permutation_refl|intros _; reflexivity].
    - destruct r as [[i|sl]|]; [| |contradiction].
      + destruct Hpost as ((H1 & _ & Hp & _ & _ & Hm1 & Hevs & _) & Hi & e & He & Hq).
        rewrite (some_slot_ref B t1 i e H1 Hm1 Hi He). cbn [bind].
        destruct (slot_write_value_safe B kv t1 i e (mkKV (k_id e) (k_stamp e) v) H1 Hm1 Hi He)
          as (t2 & E & _ & _ & _ & _ & _ & _ & _ & _ & (l1 & l2 & Eo & Eo') & _).
        rewrite E. cbn [bind]. right; right. exists e, l1, l2.
        split; [reflexivity|]. split; [exact (released_reserve_evs B tsize talign t t1 evs Hevs)|].
        split; [exact Hq|]. split; [rewrite <- Eo; symmetry; exact Hp|exact Eo'].
      + destruct Hpost as ((H1 & _ & Hp & _ & Hg1 & Hm1 & Hevs & _) & Hs & Hsp).
        destruct (insert_in_slot_safe B kv HW t1 sl h (mkKV k s v) H1 Hm1 Hs Hsp (fun _ => Hg1))
          as (t2 & E & _ & _ & _ & _ & _ & _ & _ & Hperm).
        rewrite E. cbn [bind]. right; left.
        split; [reflexivity|]. split; [exact (released_reserve_evs B tsize talign t t1 evs Hevs)|].
        apply Permutation_trans with (mkKV k s v :: occupants kv t1); [exact Hperm|apply perm_skip; exact Hp].
  Qed.

  Lemma extend_loop_e_spec : forall kvs t touched evs0, SAFE t -> OWN t ->
    ExtendSpec needs_drop kvs t
      (extend_loop_e B tsize talign needs_drop true hash_of alloc_refuses eqk t kvs touched evs0).
  Proof.
    induction kvs as [|x r IH]; intros t touched evs0 H HA.
    - cbn [extend_loop_e ExtendSpec]. exists [], [].
      split; [apply incl_refl|]. split; [apply le_n|].
      split; [rewrite app_nil_r; apply Permutation_refl|]. split; [reflexivity|]. intros _ y [].
    - cbn [extend_loop_e].
      pose proof (m_insert_e_good B HW HB tsize talign HL needs_drop hash_of alloc_refuses eqk t
                    (k_id x) (k_stamp x) (v_val x) H HA) as Hg.
      pose proof (m_insert_e_spec t (k_id x) (k_stamp x) (v_val x) H HA) as Hsp.
      destruct (m_insert_e B tsize talign needs_drop true hash_of alloc_refuses eqk t (k_id x) (k_stamp x) (v_val x))
        as [[[t1 o] evs1]|er]; cbn [bind]; [|exact I].
      destruct Hg as (H1 & HA1). cbn [InsertSpec] in Hsp.
      destruct Hsp as [(-> & gone & Hp & Hr)|[(-> & Hr & Hp)|(e & l1 & l2 & -> & Hr & Hq & Hp & Eo)]].
      + (* the hasher panicked *)
        cbn [ExtendSpec]. exists [], gone.
        split; [intros y []|]. split; [cbn [length]; lia|].
        split; [cbn [app]; apply Permutation_map; exact Hp|]. split; [intros C; congruence|].
        intros Hnd. rewrite released_app, <- (Hr Hnd). apply incl_appr, incl_refl.
      + (* stored in a free bucket *)
        specialize (IH t1 (k_id x :: touched) (evs0 ++ evs1) H1 HA1).
        destruct (extend_loop_e B tsize talign needs_drop true hash_of alloc_refuses eqk t1 r
                    (k_id x :: touched) (evs0 ++ evs1)) as [[[t' o] evs]|er]; [|exact I].
        cbn [ExtendSpec] in IH |- *. destruct IH as (added & gone & Hinc & Hlen & Hperm & Hun & Hrel).
        exists (x :: added), gone.
        split; [intros y [<-|Hy]; [left; reflexivity|right; apply Hinc; exact Hy]|].
        split; [cbn [length]; lia|]. split; [|split; assumption].
        apply Permutation_trans with (map ks (added ++ occupants kv t1)); [|exact Hperm].
        apply Permutation_map. assert (Ex : mkKV (k_id x) (k_stamp x) (v_val x) = x) by (destruct x; reflexivity).
        rewrite Ex in Hp. cbn [app].
        apply Permutation_trans with (added ++ x :: occupants kv t); [apply Permutation_middle|].
        apply Permutation_app_head. symmetry. exact Hp.
      + (* the value of an accepted element was overwritten *)
        cbv zeta.
        match goal with |- ExtendSpec _ _ _ (extend_loop_e _ _ _ _ _ _ _ _ _ _ ?tch ?ev) =>
          specialize (IH t1 tch ev H1 HA1);
          destruct (extend_loop_e B tsize talign needs_drop true hash_of alloc_refuses eqk t1 r tch ev)
            as [[[t' o] evs]|er]; [|exact I] end.
        cbn [ExtendSpec] in IH |- *. destruct IH as (added & gone & Hinc & Hlen & Hperm & Hun & Hrel).
        exists added, gone.
        split; [intros y Hy; right; apply Hinc; exact Hy|].
        split; [cbn [length]; lia|]. split; [|split; assumption].
        apply Permutation_trans with (map ks (added ++ occupants kv t1)); [|exact Hperm].
        rewrite !map_app. apply Permutation_app_head.
        rewrite Eo. apply Permutation_trans with (map ks (l1 ++ e :: l2)); [apply Permutation_map; exact Hp|].
        rewrite !map_app. cbn [map ks k_id k_stamp]. apply Permutation_refl.
  Qed.
End ExtendConserve.

Theorem map_step_e_insert_conserves :
  forall (B : backend) (tsize talign : Z) (needs_drop : bool) (hash_of : Z -> option Z) (alloc_refuses : bool)
         (eqk : Z -> kv -> bool) (t : table kv) (k s v : Z),
  WidthOK B -> BackendSpec B -> LayoutOK tsize talign ->
  SafeWF B kv t -> TOwn B kv tsize talign t ->
  InsertSpec needs_drop eqk k s v t
    (map_step_e B tsize talign needs_drop true hash_of alloc_refuses eqk t (OpInsert k s v)).
Proof.
  intros B tsize talign needs_drop hash_of alloc_refuses eqk t k s v HW HB HL H HA.
  exact (m_insert_e_spec B HW HB tsize talign HL needs_drop hash_of alloc_refuses eqk t k s v H HA).
Qed.

Theorem map_step_e_extend_conserves :
  forall (B : backend) (tsize talign : Z) (needs_drop : bool) (hash_of : Z -> option Z) (alloc_refuses : bool)
         (eqk : Z -> kv -> bool) (t : table kv) (kvs : list kv),
  WidthOK B -> BackendSpec B -> LayoutOK tsize talign -> op_args_ok (OpExtend kvs) ->
  SafeWF B kv t -> TOwn B kv tsize talign t ->
  ExtendSpec needs_drop kvs t
    (map_step_e B tsize talign needs_drop true hash_of alloc_refuses eqk t (OpExtend kvs)).
Proof.
  intros B tsize talign needs_drop hash_of alloc_refuses eqk t kvs HW HB HL Hargs H HA.
  cbn [map_step_e]. cbv zeta. cbn [op_args_ok] in Hargs.
  assert (Hn : (0 <= map_extend_reserve (items t =? 0)%Z (zn (length kvs)) < 2 ^ 64)%Z)
    by exact (extend_reserve_range (items t =? 0)%Z (length kvs) Hargs).
  destruct (reserve_spec B kv HW HB tsize talign (proj1 HL) (proj2 HL) needs_drop (hasher hash_of) t _
              alloc_refuses H HA Hn) as (Hp & Htr & _).
  destruct (reserve B kv tsize talign needs_drop (hasher hash_of) true t
              (map_extend_reserve (items t =? 0)%Z (zn (length kvs))) alloc_refuses)
    as [[[[t1 evs] tr] unw]|er]; cbn [bind]; [|exact I].
  rewrite (Htr t1 evs tr unw eq_refl) in Hp. cbn [reserve_post] in Hp.
  destruct unw.
  - (* the reserve unwound *)
    destruct Hp as (_ & _ & _ & [(_ & dropped & Hperm & Eevs & _)|(-> & len & al & -> & _)]);
      unfold unwind; cbn [ExtendSpec].
    + exists [], dropped. split; [intros y []|]. split; [cbn [length]; lia|].
      split; [cbn [app]; apply Permutation_map; exact Hperm|]. split; [intros C; congruence|].
      intros Hnd. rewrite Eevs, Hnd, released_map_drop. apply incl_refl.
    + exists [], []. split; [intros y []|]. split; [cbn [length]; lia|].
      split; [rewrite app_nil_r; apply Permutation_refl|]. split; [reflexivity|]. intros _ y [].
  - destruct Hp as (H1 & HA1 & Hperm & _).
    pose proof (extend_loop_e_spec B HW HB tsize talign HL needs_drop hash_of alloc_refuses eqk kvs t1 [] evs H1 HA1)
      as Hs.
    destruct (extend_loop_e B tsize talign needs_drop true hash_of alloc_refuses eqk t1 kvs [] evs)
      as [[[t' o] evs']|er]; [|exact I].
    cbn [ExtendSpec] in Hs |- *. destruct Hs as (added & gone & Hinc & Hlen & Hp2 & Hrest).
    exists added, gone. split; [exact Hinc|]. split; [exact Hlen|]. split; [|exact Hrest].
    apply Permutation_trans with (map ks (added ++ occupants kv t1)); [|exact Hp2].
    apply Permutation_map, Permutation_app_head. symmetry. exact Hperm.
Qed.

(* ------------------------------------------------------------------------------------------ *)
(* non-vacuity: concrete runs (SSE2 scanner, identity hash, T with drop glue)                   *)
(* ------------------------------------------------------------------------------------------ *)
Fixpoint ex_run_e (t : table kv) (ops : list map_op) : table kv :=
  match ops with
  | [] => t
  | op :: r => match map_step sse2_backend 24 8 true true (fun k => Some k) false t op with
               | Ok (t1, _, _) => ex_run_e t1 r
               | Fail _ => t
               end
  end.

(* three lawful inserts into HashMap::new() *)
Definition ex_three : table kv :=
  ex_run_e (new_table sse2_backend kv) [OpInsert 1 0 10; OpInsert 2 0 20; OpInsert 3 0 30]%Z.

(* `==` answers true for everything: insert(4, 40) finds an "equal" element (key 1) after the
   reserve(1) of insert has resized the full table, overwrites ITS value and returns the old one;
   key 4 is not stored, len() stays 3, the table is valid (case (C) of Conserved) *)
Example all_equal_insert_example :
  occupants kv ex_three = [mkKV 1 0 10; mkKV 2 0 20; mkKV 3 0 30]%Z /\
  match map_step_e sse2_backend 24 8 true true (fun k => Some k) false (fun _ _ => true) ex_three
          (OpInsert 4 7 40)%Z with
  | Ok (t', o, evs) =>
      o = OutVal 10%Z /\ occupants kv t' = [mkKV 1 0 40; mkKV 2 0 20; mkKV 3 0 30]%Z /\
      items t' = 3%Z /\ released evs = [] /\ safe_wf_check sse2_backend kv t' = true
  | Fail _ => False
  end.
Proof. vm_compute. repeat split. Qed.

(* `==` answers false for everything (not reflexive): inserting the same key twice stores it
   twice; len() = 2 = number of stored elements, the table is valid (case (B) twice) *)
Example never_equal_insert_twice_example :
  match map_step_e sse2_backend 24 8 true true (fun k => Some k) false (fun _ _ => false)
          (new_table sse2_backend kv) (OpInsert 5 1 50)%Z with
  | Ok (t1, o1, _) =>
      match map_step_e sse2_backend 24 8 true true (fun k => Some k) false (fun _ _ => false) t1
              (OpInsert 5 2 51)%Z with
      | Ok (t2, o2, _) =>
          o1 = OutNone /\ o2 = OutNone /\ occupants kv t2 = [mkKV 5 1 50; mkKV 5 2 51]%Z /\
          items t2 = 2%Z /\ safe_wf_check sse2_backend kv t2 = true
      | Fail _ => False
      end
  | Fail _ => False
  end.
Proof. vm_compute. repeat split. Qed.

Print Assumptions map_step_e_lawful.
Print Assumptions map_step_e_safe.
Print Assumptions run_var_e_safe.
Print Assumptions map_step_e_len_exact.
Print Assumptions map_step_e_conserves.
Print Assumptions map_step_e_insert_conserves.
Print Assumptions map_step_e_extend_conserves.
