(* SerdeFacts.v -- list-level facts behind C20: the pre-allocation bound and the semantics of
   "insert every pair in input order" (last value wins, first key object is kept). *)
From Coq Require Import ZArith List Bool Lia Permutation.
From HB Require Import RsPrelude Sse2 Gen Group Raw Map AssocSpec ArithFacts.
Import ListNotations.
Open Scope Z_scope.

(* ---- the size hint cannot force a large allocation ---- *)
Lemma cautious_bound (hint : option Z) : (forall h, hint = Some h -> 0 <= h) -> 0 <= serde_cautious hint <= 4096.
Proof.
  intros H. unfold serde_cautious, unwrap_or. destruct hint as [h|]; [specialize (H h eq_refl)|]; lia.
Qed.

Lemma cautious_exact (hint : option Z) :
  serde_cautious hint = match hint with Some h => Z.min h 4096 | None => 0 end.
Proof. unfold serde_cautious, unwrap_or. destruct hint; first [reflexivity | lia]. Qed.

(* whatever the claimed hint, the table allocated before the first element has at most 8192 buckets *)
Theorem prealloc_buckets_bound GW (hint : option Z) tsize talign b :
  (GW = 8 \/ GW = 16) -> (forall h, hint = Some h -> 0 <= h) -> 0 <= tsize ->
  capacity_to_buckets GW (serde_cautious hint) tsize talign = Some b -> b <= 8192.
Proof.
  intros HGW Hh Hts E.
  pose proof (cautious_bound hint Hh) as Hc.
  destruct (Z.eq_dec (serde_cautious hint) 0) as [E0|N0].
  - rewrite E0 in E. rewrite ctb_small in E by lia. injection E as <-.
    unfold small_buckets. cbv zeta. case_cmp; lia.
  - pose proof (capacity_to_buckets_spec GW (serde_cautious hint) tsize talign HGW ltac:(rewrite two_p_64; lia) Hts) as S.
    rewrite E in S. destruct S as (_ & (k & Hk & ->) & Hcap & _).
    (* b = 2^k is the smallest admissible power of two: use the definition directly *)
    destruct (Z.ltb_spec (serde_cautious hint) 15) as [Hs|Hl].
    + rewrite ctb_small in E by lia. injection E as E. rewrite <- E. unfold small_buckets. cbv zeta. case_cmp; lia.
    + rewrite ctb_large in E by lia. unfold checked_mul in E.
      destruct (Z.ltb_spec (serde_cautious hint * 8) (2 ^ 64)); [|discriminate].
      injection E as E. rewrite <- E.
      assert (Hq : serde_cautious hint * 8 / 7 <= 4682).
      { apply Z.div_le_upper_bound; lia. }
      assert (Hq2 : 2 <= serde_cautious hint * 8 / 7) by (apply Z.div_le_lower_bound; lia).
      destruct (npow2_spec (serde_cautious hint * 8 / 7) ltac:(rewrite two_p_62; lia)) as (j & Hj & -> & Hge & Hlt).
      (* 2^(j-1) < q <= 4681 < 2^13 hence j <= 13 *)
      destruct (Z.le_gt_cases j 13) as [|Hbig]; [change 8192 with (2 ^ 13); apply pow2_le_mono; lia|].
      exfalso. assert (2 ^ 13 <= 2 ^ (j - 1)) by (apply pow2_le_mono; lia). change (2 ^ 13) with 8192 in *. lia.
Qed.

(* ---- insert every pair in order ---- *)
Definition ins (acc : spec) (e : kv) : spec := insert_like acc (k_id e) (k_stamp e) (v_val e).
Definition build (items : list kv) : spec := fold_left ins items [].

Fixpoint last_val (items : list kv) (k : Z) : option Z :=
  match items with
  | [] => None
  | e :: r => match last_val r k with Some v => Some v | None => if k_id e =? k then Some (v_val e) else None end
  end.
Fixpoint first_stamp (items : list kv) (k : Z) : option Z :=
  match items with
  | [] => None
  | e :: r => if k_id e =? k then Some (k_stamp e) else first_stamp r k
  end.

Lemma lookup_delete_same s k : lookup (delete s k) k = None.
Proof. induction s as [|e s IH]; cbn [delete lookup]; [reflexivity|]. destruct (k_id e =? k) eqn:E; [assumption|]. cbn [lookup]. rewrite E. assumption. Qed.

Lemma lookup_delete_other s k k' : k <> k' -> lookup (delete s k) k' = lookup s k'.
Proof.
  intros N. induction s as [|e s IH]; cbn [delete lookup]; [reflexivity|].
  destruct (k_id e =? k) eqn:E.
  - destruct (k_id e =? k') eqn:E'; [apply Z.eqb_eq in E, E'; congruence|assumption].
  - cbn [lookup]. destruct (k_id e =? k'); [reflexivity|assumption].
Qed.

Lemma lookup_put s e k : lookup (put s e) k = if k_id e =? k then Some e else lookup s k.
Proof.
  unfold put. cbn [lookup]. destruct (k_id e =? k) eqn:E; [reflexivity|].
  apply lookup_delete_other. apply Z.eqb_neq in E. exact E.
Qed.

Lemma lookup_ins acc e k :
  lookup (ins acc e) k =
  if k_id e =? k
  then Some (mkKV (k_id e) (match lookup acc (k_id e) with Some o => k_stamp o | None => k_stamp e end) (v_val e))
  else lookup acc k.
Proof.
  unfold ins, insert_like. destruct (lookup acc (k_id e)) as [o|]; rewrite lookup_put; cbn [k_id]; reflexivity.
Qed.

(* the general statement over an accumulator, then specialised to [] *)
Lemma lookup_fold items : forall acc k,
  lookup (fold_left ins items acc) k =
  match last_val items k with
  | Some v => Some (mkKV k (match lookup acc k with Some o => k_stamp o
                                              | None => match first_stamp items k with Some s => s | None => 0 end end) v)
  | None => lookup acc k
  end.
Proof.
  induction items as [|e r IH]; intros acc k; cbn [fold_left last_val first_stamp]; [reflexivity|].
  rewrite IH. rewrite lookup_ins.
  destruct (last_val r k) as [v|] eqn:L.
  - destruct (k_id e =? k) eqn:E.
    + apply Z.eqb_eq in E. subst k. cbn [k_stamp]. destruct (lookup acc (k_id e)); reflexivity.
    + reflexivity.
  - destruct (k_id e =? k) eqn:E; [|reflexivity].
    apply Z.eqb_eq in E. subst k. cbn [k_stamp]. destruct (lookup acc (k_id e)); reflexivity.
Qed.

(* last value per key, first key object kept *)
Theorem build_last_wins items k :
  lookup (build items) k =
  match last_val items k with
  | Some v => Some (mkKV k (match first_stamp items k with Some s => s | None => 0 end) v)
  | None => None
  end.
Proof. unfold build. rewrite lookup_fold. cbn [lookup]. reflexivity. Qed.

(* keys of the result are unique *)
Definition keys_unique (s : spec) : Prop := NoDup (map k_id s).

Lemma delete_keys s k : forall x, In x (map k_id (delete s k)) -> In x (map k_id s) /\ x <> k.
Proof.
  induction s as [|e s IH]; cbn [delete map]; intros x Hx; [contradiction|].
  destruct (k_id e =? k) eqn:E.
  - destruct (IH x Hx). split; [right|]; assumption.
  - cbn [map] in Hx. destruct Hx as [<-|Hx]; [split; [left; reflexivity|apply Z.eqb_neq; assumption]|].
    destruct (IH x Hx). split; [right|]; assumption.
Qed.

Lemma delete_unique s k : keys_unique s -> keys_unique (delete s k).
Proof.
  unfold keys_unique. induction s as [|e s IH]; cbn [delete map]; intros H; [constructor|].
  inversion H as [|? ? Hn Hd]; subst. destruct (k_id e =? k); [apply IH; assumption|].
  cbn [map]. constructor; [|apply IH; assumption].
  intros Hin. apply Hn. apply (delete_keys s k). assumption.
Qed.

Lemma ins_unique acc e : keys_unique acc -> keys_unique (ins acc e).
Proof.
  intros H. unfold ins, insert_like.
  assert (G : forall x, k_id x = k_id e -> keys_unique (put acc x)).
  { intros x Ex. unfold put, keys_unique. cbn [map]. constructor; [|apply delete_unique; assumption].
    intros Hin. apply delete_keys in Hin. tauto. }
  destruct (lookup acc (k_id e)); apply G; reflexivity.
Qed.

Theorem build_unique items : keys_unique (build items).
Proof.
  unfold build. assert (G : forall acc, keys_unique acc -> keys_unique (fold_left ins items acc)).
  { induction items as [|e r IH]; intros acc H; cbn [fold_left]; [assumption|]. apply IH, ins_unique, H. }
  apply G. constructor.
Qed.

(* round trip: feeding the entries of a map with unique keys (in any order) rebuilds that map *)
Lemma last_val_unique items k : NoDup (map k_id items) ->
  last_val items k = match lookup items k with Some e => Some (v_val e) | None => None end.
Proof.
  induction items as [|e r IH]; cbn [map last_val lookup]; intros H; [reflexivity|].
  inversion H as [|? ? Hn Hd]; subst. rewrite IH by assumption.
  destruct (k_id e =? k) eqn:E.
  - apply Z.eqb_eq in E. subst k.
    destruct (lookup r (k_id e)) as [x|] eqn:L; [exfalso|reflexivity].
    apply Hn. clear -L. induction r as [|y r IH]; cbn [lookup] in L; [discriminate|].
    destruct (k_id y =? k_id e) eqn:E; [left; apply Z.eqb_eq; assumption|right; apply IH; assumption].
  - destruct (lookup r k); reflexivity.
Qed.

Lemma first_stamp_lookup items k :
  first_stamp items k = match lookup items k with Some e => Some (k_stamp e) | None => None end.
Proof.
  induction items as [|e r IH]; cbn [first_stamp lookup]; [reflexivity|]. destruct (k_id e =? k); [reflexivity|assumption].
Qed.

Lemma lookup_id s k e : lookup s k = Some e -> k_id e = k.
Proof. induction s as [|x s IH]; cbn [lookup]; [discriminate|]. destruct (k_id x =? k) eqn:E; [intros [= <-]; apply Z.eqb_eq; assumption|assumption]. Qed.

Theorem roundtrip (s : spec) : keys_unique s ->
  forall k, lookup (build s) k = lookup s k.
Proof.
  intros H k. rewrite build_last_wins, (last_val_unique s k H), first_stamp_lookup.
  destruct (lookup s k) as [e|] eqn:L; [|reflexivity].
  pose proof (lookup_id s k e L). destruct e as [i st v]. cbn in *. subst. reflexivity.
Qed.
