(* Triangular.v -- the probe sequence (Gen.probe_seq / Gen.probe_move_next) visits every group
   of a power-of-two table exactly once before repeating. *)
From Coq Require Import ZArith List Bool Lia Znumtheory Zpow_facts.
From HB Require Import RsPrelude Sse2 Gen ArithFacts.
Import ListNotations.
Open Scope Z_scope.

(* T j = j(j+1)/2 ; we avoid division: 2*T j = j*(j+1). *)
Definition T2 (j : Z) : Z := j * (j + 1).
Definition tri (j : Z) : Z := T2 j / 2.

Lemma T2_even j : T2 j = 2 * tri j.
Proof.
  unfold tri, T2.
  assert (H : (j * (j + 1)) mod 2 = 0).
  { rewrite Z.mul_mod by lia.
    assert (j mod 2 = 0 \/ j mod 2 = 1) as [E|E] by (pose proof (Z.mod_pos_bound j 2); lia).
    - rewrite E. reflexivity.
    - replace ((j + 1) mod 2) with 0; [rewrite Z.mul_0_r; reflexivity|].
      rewrite Z.add_mod, E by lia. reflexivity. }
  pose proof (Z.div_mod (j * (j + 1)) 2 ltac:(lia)). lia.
Qed.

Lemma tri_succ j : 0 <= j -> tri (j + 1) = tri j + (j + 1).
Proof.
  intros Hj. pose proof (T2_even j). pose proof (T2_even (j + 1)). unfold T2 in *. lia.
Qed.

Lemma tri_nonneg j : 0 <= j -> 0 <= tri j.
Proof. intros. pose proof (T2_even j). unfold T2 in *. nia. Qed.

Lemma odd_rel_prime_pow2 a n : 0 <= n -> Z.odd a = true -> rel_prime a (2 ^ n).
Proof.
  intros Hn Ha. apply Zpow_facts.rel_prime_Zpower_r; [exact Hn|].
  apply rel_prime_sym.
  apply prime_rel_prime; [exact prime_2|].
  intros [k Hk]. subst a. rewrite Z.odd_mul in Ha. cbn in Ha.
  rewrite Bool.andb_false_r in Ha. discriminate.
Qed.

Lemma pow2_div_odd_mul a b n : 0 <= n -> Z.odd a = true -> (2 ^ n | a * b) -> (2 ^ n | b).
Proof.
  intros Hn Ha Hd. apply Gauss with a; [exact Hd|].
  apply rel_prime_sym. apply odd_rel_prime_pow2; assumption.
Qed.

(* Injectivity of triangular numbers mod 2^k on [0,2^k). *)
Theorem tri_inj k i j :
  0 <= k -> 0 <= i < j -> j < 2 ^ k ->
  ~ (2 ^ (k + 1) | T2 j - T2 i).
Proof.
  intros Hk Hij Hj Hd.
  assert (E : T2 j - T2 i = (j - i) * (i + j + 1)) by (unfold T2; ring).
  rewrite E in Hd.
  assert (Hp : 2 ^ (k + 1) = 2 * 2 ^ k) by (rewrite Z.pow_add_r by lia; ring).
  assert (Hpk : 0 < 2 ^ k) by (apply Z.pow_pos_nonneg; lia).
  destruct (Z.odd (j - i)) eqn:Hodd.
  - apply pow2_div_odd_mul in Hd; [|lia|exact Hodd].
    apply Z.divide_pos_le in Hd; lia.
  - rewrite Z.mul_comm in Hd.
    assert (Ho : Z.odd (i + j + 1) = true).
    { replace (i + j + 1) with ((j - i) + 1 + 2 * i) by ring.
      rewrite Z.odd_add_mul_2. rewrite Z.odd_add, Hodd. reflexivity. }
    apply pow2_div_odd_mul in Hd; [|lia|exact Ho].
    apply Z.divide_pos_le in Hd; lia.
Qed.

Corollary tri_inj_mod k i j :
  0 <= k -> 0 <= i < 2 ^ k -> 0 <= j < 2 ^ k -> tri i mod 2 ^ k = tri j mod 2 ^ k -> i = j.
Proof.
  intros Hk Hi Hj E.
  assert (Hpk : 0 < 2 ^ k) by (apply Z.pow_pos_nonneg; lia).
  assert (G : forall a b, 0 <= a < b -> b < 2 ^ k -> tri a mod 2 ^ k = tri b mod 2 ^ k -> False).
  { intros a b Hab Hb Eab. apply (tri_inj k a b Hk Hab Hb).
    rewrite (T2_even a), (T2_even b).
    assert (D : (2 ^ k | tri b - tri a)).
    { apply Z.mod_divide; [lia|]. rewrite Zminus_mod, Eab, Z.sub_diag. reflexivity. }
    destruct D as [c Hc]. exists c. rewrite Z.pow_add_r by lia. lia. }
  destruct (Z.lt_trichotomy i j) as [L|[->|L]]; [exfalso; eapply (G i j); eauto; lia|reflexivity|
    exfalso; eapply (G j i); eauto; lia].
Qed.

(* ------------------------------------------------------------------------------------------ *)
(* The probe sequence as the source computes it                                                 *)
(* ------------------------------------------------------------------------------------------ *)

Fixpoint probe_iter (GW mask : Z) (n : nat) (ps : Z * Z) : Z * Z :=
  match n with
  | O => ps
  | S m => let '(p, s) := probe_iter GW mask m ps in probe_move_next GW p s mask
  end.

Lemma land_mask x k : 0 <= k -> 0 <= x -> Z.land x (2 ^ k - 1) = x mod 2 ^ k.
Proof.
  intros Hk Hx. replace (2 ^ k - 1) with (Z.ones k) by (rewrite Z.ones_equiv; lia).
  apply Z.land_ones; lia.
Qed.

(* closed form: after j steps the position is (p0 + GW * T_j) mod buckets and the stride j*GW;
   no addition wraps as long as the stride stays within the table (the bound the code asserts). *)
Theorem probe_closed_form GW k p0 (n : nat) :
  0 < GW <= 2 ^ 62 -> 0 <= k <= 62 -> 0 <= p0 < 2 ^ k -> Z.of_nat n * GW <= 2 ^ 62 ->
  probe_iter GW (2 ^ k - 1) n (p0, 0) =
    ((p0 + GW * tri (Z.of_nat n)) mod 2 ^ k, Z.of_nat n * GW).
Proof.
  intros HGW Hk Hp0. induction n as [|n IH]; intros Hn.
  - cbn [probe_iter]. change (tri (Z.of_nat 0)) with 0. rewrite Z.mul_0_r, Z.add_0_r.
    rewrite Z.mod_small by lia. reflexivity.
  - cbn [probe_iter]. rewrite IH by lia.
    unfold probe_move_next.
    assert (Hpk : 0 < 2 ^ k) by (apply pow2_pos; lia).
    assert (Hk62 : 2 ^ k <= 2 ^ 62) by (apply pow2_le_mono; lia).
    rewrite two_p_62 in *.
    set (q := (p0 + GW * tri (Z.of_nat n)) mod 2 ^ k).
    assert (Hq : 0 <= q < 2 ^ k) by (apply Z.mod_pos_bound; lia).
    assert (Hs : wadd 64 (Z.of_nat n * GW) GW = Z.of_nat (S n) * GW).
    { unfold wadd. rewrite wrap_small by (rewrite two_p_64; lia). lia. }
    rewrite Hs.
    unfold wadd. rewrite (wrap_small 64 (q + _)) by (rewrite two_p_64; lia).
    rewrite land_mask by lia.
    f_equal.
    replace (Z.of_nat (S n)) with (Z.of_nat n + 1) by lia.
    rewrite tri_succ by lia.
    unfold q. rewrite Zplus_mod_idemp_l. f_equal. lia.
Qed.

(* Two distinct steps j1 <> j2 below buckets/GW probe different positions, and every position
   is congruent to the start modulo the group width. *)
Theorem probe_positions_distinct g k p0 j1 j2 :
  0 <= g <= k -> k <= 62 -> 0 <= p0 < 2 ^ k ->
  0 <= j1 < 2 ^ (k - g) -> 0 <= j2 < 2 ^ (k - g) ->
  (p0 + 2 ^ g * tri j1) mod 2 ^ k = (p0 + 2 ^ g * tri j2) mod 2 ^ k -> j1 = j2.
Proof.
  intros Hg Hk Hp0 Hj1 Hj2 E.
  apply (tri_inj_mod (k - g)); try lia.
  assert (Hpg : 0 < 2 ^ g) by (apply pow2_pos; lia).
  assert (Hpkg : 0 < 2 ^ (k - g)) by (apply pow2_pos; lia).
  assert (Ek : 2 ^ k = 2 ^ g * 2 ^ (k - g)) by (rewrite <- Z.pow_add_r by lia; f_equal; lia).
  assert (D : (2 ^ k | 2 ^ g * tri j1 - 2 ^ g * tri j2)).
  { apply Z.mod_divide; [lia|].
    replace (2 ^ g * tri j1 - 2 ^ g * tri j2) with ((p0 + 2 ^ g * tri j1) - (p0 + 2 ^ g * tri j2)) by lia.
    rewrite Zminus_mod, E, Z.sub_diag. reflexivity. }
  destruct D as [c Hc]. rewrite Ek in Hc.
  assert (Hc' : tri j1 - tri j2 = c * 2 ^ (k - g)) by nia.
  assert (M : (tri j1 - tri j2) mod 2 ^ (k - g) = 0) by (rewrite Hc'; apply Z.mod_mul; lia).
  rewrite Zminus_mod in M.
  pose proof (Z.mod_pos_bound (tri j1) (2 ^ (k - g)) Hpkg).
  pose proof (Z.mod_pos_bound (tri j2) (2 ^ (k - g)) Hpkg).
  destruct (Z.eq_dec (tri j1 mod 2 ^ (k - g)) (tri j2 mod 2 ^ (k - g))) as [|Hne]; [assumption|].
  exfalso.
  destruct (Z.lt_ge_cases (tri j1 mod 2 ^ (k - g)) (tri j2 mod 2 ^ (k - g))).
  - rewrite <- (Z.mod_unique _ _ (-1) (tri j1 mod 2 ^ (k - g) - tri j2 mod 2 ^ (k - g) + 2 ^ (k - g))) in M; lia.
  - rewrite Z.mod_small in M; lia.
Qed.

(* group offset class of position p relative to start p0 *)
Definition group_class (g k p0 p : Z) : Z := ((p - p0) mod 2 ^ k) / 2 ^ g.

Lemma probe_class g k p0 j :
  0 <= g <= k -> 0 <= p0 < 2 ^ k -> 0 <= j ->
  let p := (p0 + 2 ^ g * tri j) mod 2 ^ k in
  (p - p0) mod 2 ^ k = 2 ^ g * (tri j mod 2 ^ (k - g)).
Proof.
  intros Hg Hp0 Hj p. unfold p.
  assert (Hpg : 0 < 2 ^ g) by (apply pow2_pos; lia).
  assert (Hpkg : 0 < 2 ^ (k - g)) by (apply pow2_pos; lia).
  assert (Ek : 2 ^ k = 2 ^ g * 2 ^ (k - g)) by (rewrite <- Z.pow_add_r by lia; f_equal; lia).
  rewrite Zminus_mod_idemp_l.
  replace (p0 + 2 ^ g * tri j - p0) with (2 ^ g * tri j) by lia.
  rewrite Ek. rewrite Z.mul_mod_distr_l by lia. reflexivity.
Qed.

Lemma NoDup_map_inj_on {A B} (f : A -> B) (l : list A) :
  NoDup l -> (forall a b, In a l -> In b l -> f a = f b -> a = b) -> NoDup (map f l).
Proof.
  induction 1 as [|x l Hx ND IH]; intros Hinj; cbn [map]; constructor.
  - intros Hin. apply in_map_iff in Hin as (y & Ey & Hy).
    assert (y = x) by (apply Hinj; [right; assumption|left; reflexivity|assumption]). subst. contradiction.
  - apply IH. intros a b Ha Hb. apply Hinj; right; assumption.
Qed.

(* Every group class r < buckets/GW is hit by exactly one of the first buckets/GW probes. *)
Theorem probe_permutation g k p0 :
  0 <= g <= k -> k <= 62 -> 0 <= p0 < 2 ^ k ->
  forall r, 0 <= r < 2 ^ (k - g) ->
  exists j, 0 <= j < 2 ^ (k - g) /\
    (p0 + 2 ^ g * tri j) mod 2 ^ k = (p0 + 2 ^ g * r) mod 2 ^ k /\
    forall j', 0 <= j' < 2 ^ (k - g) ->
      (p0 + 2 ^ g * tri j') mod 2 ^ k = (p0 + 2 ^ g * r) mod 2 ^ k -> j' = j.
Proof.
  intros Hg Hk Hp0 r Hr.
  set (n := 2 ^ (k - g)).
  assert (Hn : 0 < n) by (apply pow2_pos; lia).
  (* pigeonhole on the list of residues tri j mod n, j < n *)
  set (N := Z.to_nat n).
  set (f := fun j : nat => tri (Z.of_nat j) mod n).
  set (l := map f (seq 0 N)).
  assert (ND : NoDup l).
  { unfold l. apply NoDup_map_inj_on; [apply seq_NoDup|].
    intros a b Ha Hb E. apply in_seq in Ha, Hb. unfold f in E.
    apply (tri_inj_mod (k - g)) in E; [lia|lia| |]; unfold N in *; fold n; lia. }
  assert (Hin : incl l (map Z.of_nat (seq 0 N))).
  { intros x Hx. unfold l in Hx. apply in_map_iff in Hx as (j & <- & Hj).
    apply in_seq in Hj. unfold f.
    pose proof (Z.mod_pos_bound (tri (Z.of_nat j)) n Hn) as Hb.
    apply in_map_iff. exists (Z.to_nat (tri (Z.of_nat j) mod n)). split; [lia|].
    apply in_seq. unfold N. lia. }
  assert (Hsur : incl (map Z.of_nat (seq 0 N)) l).
  { apply NoDup_length_incl; [exact ND| |exact Hin].
    unfold l. rewrite !map_length. lia. }
  assert (Hr' : In r (map Z.of_nat (seq 0 N))).
  { apply in_map_iff. exists (Z.to_nat r). split; [lia|]. apply in_seq. unfold N. lia. }
  apply Hsur in Hr'. unfold l in Hr'. apply in_map_iff in Hr' as (j & Ej & Hj).
  apply in_seq in Hj. unfold f in Ej.
  assert (Hpg : 0 < 2 ^ g) by (apply pow2_pos; lia).
  assert (Ek : 2 ^ k = 2 ^ g * n) by (unfold n; rewrite <- Z.pow_add_r by lia; f_equal; lia).
  assert (Key : forall x y, x mod n = y mod n -> (p0 + 2 ^ g * x) mod 2 ^ k = (p0 + 2 ^ g * y) mod 2 ^ k).
  { intros x y E. rewrite <- (Zplus_mod_idemp_r (2 ^ g * x)), <- (Zplus_mod_idemp_r (2 ^ g * y)).
    rewrite Ek, !Z.mul_mod_distr_l by lia. rewrite E. reflexivity. }
  exists (Z.of_nat j). split; [unfold N in Hj; lia|]. split.
  - apply Key. rewrite Ej. symmetry. apply Z.mod_small; lia.
  - intros j' Hj' E'.
    apply (probe_positions_distinct g k p0); try lia; try (unfold N in Hj; fold n; lia).
    rewrite E'. symmetry. apply Key. rewrite Ej. symmetry. apply Z.mod_small; lia.
Qed.
