(* TableStepSafe.v -- SAFETY of every HashTable operation of the model (Model/Table.v), and the
   distinctness facts of get_many_mut (property C15).

   From every valid table (SafeWF, owning its block) every operation of `table_step` -- with the
   repaired rehash guard -- returns with a valid table, or performs one of the two documented
   library panics of the infallible allocation paths.  There is NO assumption on the caller-supplied
   hash (`hash_of` may panic on any key and return anything) and NO assumption on the equality
   closures (`tpred`: they may match several stored elements and be unrelated to the hash):
   unlawful closures cannot cause undefined behaviour.  No axioms. *)
From Coq Require Import ZArith List Bool Lia Permutation.
From HB Require Import RsPrelude Sse2 Gen Group Raw Map Table Check ArithFacts WFDefs GroupFacts ProbeFacts
  IterFacts SafeInsertErase SafeAllocClear FindFacts RawOpsSafe MapDefs MapStepSafe MultisetSpec.
Import ListNotations.
Open Scope nat_scope.

Definition top_args_ok (op : tbl_op) : Prop :=
  match op with
  | TWithCapacity n | TReserve n | TTryReserve n | TShrinkTo n => (0 <= n < 2 ^ 64)%Z
  | _ => True
  end.

(* ------------------------------------------------------------------------------------------ *)
(* lists of optional bucket indices                                                             *)
(* ------------------------------------------------------------------------------------------ *)
Fixpoint somes {A} (l : list (option A)) : list A :=
  match l with
  | [] => []
  | Some x :: r => x :: somes r
  | None :: r => somes r
  end.

Lemma somes_In {A} (l : list (option A)) x : In x (somes l) <-> In (Some x) l.
Proof.
  induction l as [|[y|] r IH]; cbn [somes In].
  - tauto.
  - rewrite IH. split; intros [H|H]; auto; left; congruence.
  - rewrite IH. split; [auto|]. intros [H|H]; [discriminate H|exact H].
Qed.

Local Notation same_idx i := (fun x : option nat => match x with Some j => Nat.eqb i j | None => false end).

Lemma existsb_same_idx i (r : list (option nat)) : existsb (same_idx i) r = true <-> In (Some i) r.
Proof.
  rewrite existsb_exists. split.
  - intros ([j|] & Hin & E); [|discriminate E]. apply Nat.eqb_eq in E. subst j. exact Hin.
  - intros Hin. exists (Some i). split; [exact Hin|apply Nat.eqb_refl].
Qed.

(* no duplicate detected: the resolved buckets are pairwise distinct *)
Lemma has_dup_NoDup (l : list (option nat)) : has_dup l = false -> NoDup (somes l).
Proof.
  induction l as [|[i|] r IH]; cbn [has_dup somes]; intros H.
  - constructor.
  - apply orb_false_iff in H. destruct H as (H1 & H2). constructor; [|exact (IH H2)].
    intros Hin. apply somes_In in Hin. apply existsb_same_idx in Hin. congruence.
  - exact (IH H).
Qed.

(* a duplicate is detected exactly when two requests resolved to the same bucket *)
Lemma has_dup_true_iff (l : list (option nat)) :
  has_dup l = true <->
  exists a b i, a < b /\ nth_error l a = Some (Some i) /\ nth_error l b = Some (Some i).
Proof.
  induction l as [|x r IH].
  - cbn [has_dup]. split; [discriminate|]. intros (a & b & i & _ & H & _). destruct a; discriminate H.
  - split.
    + intros H.
      assert (Hcase : (exists i, x = Some i /\ In (Some i) r) \/ has_dup r = true).
      { destruct x as [i|]; cbn [has_dup] in H; [|right; exact H].
        apply orb_true_iff in H. destruct H as [H|H]; [left|right; exact H].
        exists i. split; [reflexivity|]. apply existsb_same_idx. exact H. }
      destruct Hcase as [(i & -> & Hin)|Hd].
      * destruct (In_nth_error _ _ Hin) as (b & Hb). exists 0, (S b), i.
        split; [lia|]. split; [reflexivity|exact Hb].
      * destruct (proj1 IH Hd) as (a & b & i & Hab & Ha & Hb). exists (S a), (S b), i.
        split; [lia|]. split; assumption.
    + intros (a & b & i & Hab & Ha & Hb).
      destruct b as [|b]; [lia|]. cbn [nth_error] in Hb.
      destruct a as [|a].
      * cbn [nth_error] in Ha. injection Ha as ->. cbn [has_dup]. apply orb_true_iff. left.
        apply existsb_same_idx. exact (nth_error_In _ _ Hb).
      * cbn [nth_error] in Ha.
        assert (Hd : has_dup r = true).
        { apply (proj2 IH). exists a, b, i. split; [lia|]. split; assumption. }
        destruct x as [j|]; cbn [has_dup]; [|exact Hd]. rewrite Hd. apply orb_true_r.
Qed.

(* t_retain_loop is Map.retain_loop *)
Lemma t_retain_loop_eq B needs_drop : forall fuel t it keep bump evs,
  t_retain_loop B needs_drop fuel t it keep bump evs = retain_loop B needs_drop fuel t it keep bump evs.
Proof.
  induction fuel as [|f IH]; intros t it keep bump evs; [reflexivity|].
  cbn [t_retain_loop retain_loop].
  destruct (iter_next B kv t it) as [[nxt it']|]; cbn [bind]; [|reflexivity].
  destruct nxt as [i|]; [|reflexivity].
  destruct (slot_ref kv t i) as [e|]; cbn [bind]; [|reflexivity].
  destruct (slot_write kv t i _) as [t1|]; cbn [bind]; [|reflexivity].
  destruct (existsb (Z.eqb (k_id e)) keep); [apply IH|].
  destruct (erase_drop B kv needs_drop t1 i) as [[t2 evs2]|]; cbn [bind]; [apply IH|reflexivity].
Qed.

Section TableStepSafe.
  Variable B : backend.
  Hypothesis HW : WidthOK B.
  Hypothesis HB : BackendSpec B.
  Variable tsize talign : Z.
  Hypothesis HL : LayoutOK tsize talign.
  Variable needs_drop : bool.
  Variable hash_of : Z -> option Z.
  Variable alloc_refuses : bool.

  Let Hts : (0 <= tsize < 2 ^ 64)%Z := proj1 HL.
  Let Hta : exists a : Z, (0 <= a <= 62)%Z /\ talign = (2 ^ a)%Z := proj2 HL.

  Local Notation GW := (bk_width B).
  Local Notation SAFE := (SafeWF B kv).
  Local Notation OWN := (TOwn B kv tsize talign).
  Local Notation HSH := (hasher hash_of).
  Local Notation STEP t op := (table_step B tsize talign needs_drop true hash_of alloc_refuses t op).

  Definition TGood (r : res tresult) : Prop :=
    match r with
    | Ok (t', _, _) => SAFE t' /\ OWN t'
    | Fail e => benign e
    end.

  Lemma TGood_ok t (o : tout) (evs : list (event kv)) : SAFE t -> OWN t -> TGood (Ok (t, o, evs)).
  Proof. intros H1 H2. split; assumption. Qed.

  Lemma TGood_with_h t k f : SAFE t -> OWN t -> (forall h, TGood (f h)) -> TGood (with_h hash_of t k f).
  Proof.
    intros H1 H2 Hf. unfold with_h. destruct (hash_of k) as [h|]; [apply Hf|].
    unfold tunwind. apply TGood_ok; assumption.
  Qed.

  Local Notation singleton_eq' := (singleton_eq B).
  Local Notation some_slot_ref' := (some_slot_ref B).
  Local Notation slot_some_full' := (slot_some_full B).
  Local Notation own_same' := (own_same B tsize talign).

  (* ---------------------------------------------------------------------------------------- *)
  (* find with an arbitrary closure                                                             *)
  (* ---------------------------------------------------------------------------------------- *)
  Definition found_ok (t : table kv) (p : tpred) (r : option nat) : Prop :=
    match r with
    | None => True
    | Some i => mask t <> 0 /\ i < nb kv t /\
                exists e, slot kv t i = Some e /\ slot_ref kv t i = Ok e /\ tpred_holds p e = true
    end.

  Lemma tfind_cases t hash p : SAFE t ->
    exists r, find B kv t hash (peq p) = Ok r /\ found_ok t p r.
  Proof.
    intros H. destruct (Nat.eq_dec (mask t) 0) as [Hm|Hm].
    - rewrite (singleton_eq' t H Hm). exists None. split; [apply (find_singleton B HW HB)|exact I].
    - change (peq p) with (pure_eq (tpred_holds p)).
      destruct (find_total B kv HW HB t Hm (tpred_holds p) hash H) as (r & E).
      exists r. split; [exact E|]. destruct r as [i|]; [|exact I].
      destruct (find_sound B kv HW HB t Hm _ hash i H E) as (Hi & e & He & HP).
      split; [exact Hm|]. split; [exact Hi|]. exists e. split; [exact He|].
      split; [exact (some_slot_ref' t i e H Hm Hi He)|exact HP].
  Qed.

  Lemma tfind_found t hash p r : SAFE t -> find B kv t hash (peq p) = Ok r -> found_ok t p r.
  Proof.
    intros H E. destruct (tfind_cases t hash p H) as (r' & E' & Hr). rewrite E in E'.
    injection E' as <-. exact Hr.
  Qed.

  (* ---------------------------------------------------------------------------------------- *)
  (* element-level steps                                                                        *)
  (* ---------------------------------------------------------------------------------------- *)
  Lemma twrite_good t i e e' (o : tout) (evs : list (event kv)) :
    SAFE t -> OWN t -> mask t <> 0 -> i < nb kv t -> slot kv t i = Some e ->
    TGood (t2 <- slot_write kv t i e' ;; Ok (t2, o, evs)).
  Proof.
    intros H HA Hm Hi He.
    destruct (slot_write_value_safe B kv t i e e' H Hm Hi He) as (t2 & E & H2 & Em & _).
    rewrite E. cbn [bind]. apply TGood_ok; [exact H2|exact (own_same' t t2 Em HA)].
  Qed.

  Lemma tinsert_in_slot_good t h s v (o : tout) (evs : list (event kv)) :
    SAFE t -> OWN t -> mask t <> 0 -> s < nb kv t ->
    is_special (byte kv t s) = true -> (byte kv t s = EMPTY -> (0 < growth_left t)%Z) ->
    TGood (t2 <- insert_in_slot B kv t h s v ;; Ok (t2, o, evs)).
  Proof.
    intros H HA Hm Hs Hsp Hg.
    destruct (insert_in_slot_safe B kv HW t s h v H Hm Hs Hsp Hg) as (t2 & E & H2 & Em & _).
    rewrite E. cbn [bind]. apply TGood_ok; [exact H2|exact (own_same' t t2 Em HA)].
  Qed.

  (* ---------------------------------------------------------------------------------------- *)
  (* find, find_mut, find_entry + remove, remove + re-insert                                    *)
  (* ---------------------------------------------------------------------------------------- *)
  Lemma tfind_good t hk p : SAFE t -> OWN t -> TGood (STEP t (TFind hk p)).
  Proof.
    intros H HA. cbn [table_step]. apply TGood_with_h; [exact H|exact HA|]. intros h.
    destruct (tfind_cases t h p H) as (r & E & Hr). rewrite E. cbn [bind].
    destruct r as [i|]; [|apply TGood_ok; assumption].
    destruct Hr as (_ & _ & e & _ & Er & _). rewrite Er. cbn [bind]. apply TGood_ok; assumption.
  Qed.

  Lemma tfind_mut_good t hk p nv : SAFE t -> OWN t -> TGood (STEP t (TFindMut hk p nv)).
  Proof.
    intros H HA. cbn [table_step]. apply TGood_with_h; [exact H|exact HA|]. intros h.
    destruct (tfind_cases t h p H) as (r & E & Hr). rewrite E. cbn [bind].
    destruct r as [i|]; [|apply TGood_ok; assumption].
    destruct Hr as (Hm & Hi & e & He & Er & _). rewrite Er. cbn [bind].
    exact (twrite_good t i e _ _ _ H HA Hm Hi He).
  Qed.

  Lemma tfind_entry_remove_good t hk p : SAFE t -> OWN t -> TGood (STEP t (TFindEntryRemove hk p)).
  Proof.
    intros H HA. cbn [table_step]. apply TGood_with_h; [exact H|exact HA|]. intros h.
    destruct (tfind_cases t h p H) as (r & E & Hr). rewrite E. cbn [bind].
    destruct r as [i|]; [|apply TGood_ok; assumption].
    destruct Hr as (Hm & Hi & e & He & _).
    pose proof (slot_some_full' t i e H Hm Hi He) as Hf.
    destruct (remove_safe B kv HW t i H Hm Hi Hf) as (e' & t2 & Er & _ & H2 & Em & _).
    rewrite Er. cbn [bind]. apply TGood_ok; [exact H2|exact (own_same' t t2 Em HA)].
  Qed.

  (* OccupiedEntry::remove leaves an EMPTY or DELETED byte in the bucket and, when EMPTY, gives the
     growth budget back: the VacantEntry it returns can always be filled again *)
  Lemma tremove_reinsert_good t hk p st v : SAFE t -> OWN t -> TGood (STEP t (TRemoveReinsert hk p st v)).
  Proof.
    intros H HA. cbn [table_step]. apply TGood_with_h; [exact H|exact HA|]. intros h.
    destruct (tfind_cases t h p H) as (r & E & Hr). rewrite E. cbn [bind].
    destruct r as [i|]; [|apply TGood_ok; assumption].
    destruct Hr as (Hm & Hi & e & He & _).
    pose proof (slot_some_full' t i e H Hm Hi He) as Hf.
    destruct (remove_safe B kv HW t i H Hm Hi Hf)
      as (e' & t1 & Er & _ & H1 & Em1 & _ & Hsp1 & _ & _ & _ & _ & Hgl1 & _).
    rewrite Er. cbn [bind].
    assert (Enb1 : nb kv t1 = nb kv t) by (unfold nb, buckets; rewrite Em1; reflexivity).
    pose proof (SafeWF_growth_bound B kv t H) as Hgb.
    apply tinsert_in_slot_good; [exact H1|exact (own_same' t t1 Em1 HA)|congruence|lia|exact Hsp1|].
    intros Ee. rewrite Hgl1, Ee. change (is_empty EMPTY) with true. cbv iota. lia.
  Qed.

  (* ---------------------------------------------------------------------------------------- *)
  (* entry (find_or_find_insert_slot), insert_unique                                            *)
  (* ---------------------------------------------------------------------------------------- *)
  Local Notation FOI t h k :=
    (find_or_find_insert_slot B kv tsize talign needs_drop (thasher hash_of) true t h (peq (PId k)) alloc_refuses).

  Lemma foi_cases t h k : SAFE t -> OWN t ->
    match FOI t h k with
    | Ok (t1, _, true, _) => SAFE t1 /\ OWN t1
    | Ok (t1, _, false, Some (inl i)) =>
        SAFE t1 /\ OWN t1 /\ mask t1 <> 0 /\ i < nb kv t1 /\
        exists e, slot kv t1 i = Some e /\ slot_ref kv t1 i = Ok e
    | Ok (t1, _, false, Some (inr s)) =>
        SAFE t1 /\ OWN t1 /\ mask t1 <> 0 /\ s < nb kv t1 /\
        is_special (byte kv t1 s) = true /\ (0 < growth_left t1)%Z
    | Ok (_, _, false, None) => False
    | Fail e => benign e
    end.
  Proof.
    intros H HA. change (peq (PId k)) with (pure_eq (tpred_holds (PId k))).
    pose proof (find_or_find_insert_slot_spec B kv HW HB tsize talign Hts Hta needs_drop (thasher hash_of) t h
                  (tpred_holds (PId k)) alloc_refuses H HA) as Hpost.
    destruct (find_or_find_insert_slot B kv tsize talign needs_drop (thasher hash_of) true t h
                (pure_eq (tpred_holds (PId k))) alloc_refuses) as [[[[t1 evs] unw] r]|er].
    - destruct unw; cbn [foi_post] in Hpost.
      + destruct Hpost as (_ & H1 & HA1 & _). split; assumption.
      + destruct r as [[i|s]|]; [| |contradiction].
        * destruct Hpost as ((H1 & HA1 & _ & _ & _ & Hm1 & _) & Hi & e & He & _).
          repeat (split; [assumption|]). exists e. split; [exact He|].
          exact (some_slot_ref' t1 i e H1 Hm1 Hi He).
        * destruct Hpost as ((H1 & HA1 & _ & _ & Hg1 & Hm1 & _) & Hs & Hsp).
          repeat (split; [assumption|]). exact Hg1.
    - destruct er; cbn [foi_post] in Hpost; try contradiction; [left|right]; reflexivity.
  Qed.

  Lemma tentry_insert_good t k st v : SAFE t -> OWN t -> TGood (STEP t (TEntryInsert k st v)).
  Proof.
    intros H HA. cbn [table_step]. apply TGood_with_h; [exact H|exact HA|]. intros h.
    pose proof (foi_cases t h k H HA) as Hc.
    destruct (FOI t h k) as [[[[t1 evs] unw] r]|er]; cbn [bind]; [|exact Hc].
    destruct unw; [unfold tunwind; apply TGood_ok; tauto|].
    destruct r as [[i|s]|]; [| |contradiction].
    - destruct Hc as (H1 & HA1 & Hm1 & Hi & e & He & Er). rewrite Er. cbn [bind].
      exact (twrite_good t1 i e _ _ _ H1 HA1 Hm1 Hi He).
    - destruct Hc as (H1 & HA1 & Hm1 & Hs & Hsp & Hg).
      exact (tinsert_in_slot_good t1 h s _ _ _ H1 HA1 Hm1 Hs Hsp (fun _ => Hg)).
  Qed.

  Lemma tentry_or_insert_good t k st v : SAFE t -> OWN t -> TGood (STEP t (TEntryOrInsert k st v)).
  Proof.
    intros H HA. cbn [table_step]. apply TGood_with_h; [exact H|exact HA|]. intros h.
    pose proof (foi_cases t h k H HA) as Hc.
    destruct (FOI t h k) as [[[[t1 evs] unw] r]|er]; cbn [bind]; [|exact Hc].
    destruct unw; [unfold tunwind; apply TGood_ok; tauto|].
    destruct r as [[i|s]|]; [| |contradiction].
    - destruct Hc as (H1 & HA1 & Hm1 & Hi & e & He & Er). rewrite Er. cbn [bind].
      apply TGood_ok; assumption.
    - destruct Hc as (H1 & HA1 & Hm1 & Hs & Hsp & Hg).
      exact (tinsert_in_slot_good t1 h s _ _ _ H1 HA1 Hm1 Hs Hsp (fun _ => Hg)).
  Qed.

  Lemma tentry_drop_good t k : SAFE t -> OWN t -> TGood (STEP t (TEntryDrop k)).
  Proof.
    intros H HA. cbn [table_step]. apply TGood_with_h; [exact H|exact HA|]. intros h.
    pose proof (foi_cases t h k H HA) as Hc.
    destruct (FOI t h k) as [[[[t1 evs] unw] r]|er]; cbn [bind]; [|exact Hc].
    destruct unw; [unfold tunwind; apply TGood_ok; tauto|].
    destruct r as [[i|s]|]; [| |contradiction]; apply TGood_ok; tauto.
  Qed.

  Lemma tinsert_unique_good t k st v : SAFE t -> OWN t -> TGood (STEP t (TInsertUnique k st v)).
  Proof.
    intros H HA. cbn [table_step]. apply TGood_with_h; [exact H|exact HA|]. intros h.
    pose proof (insert_spec B kv HW HB tsize talign Hts Hta needs_drop (thasher hash_of) t h (mkKV k st v)
                  alloc_refuses H HA) as Hpost.
    destruct (Raw.insert B kv tsize talign needs_drop (thasher hash_of) true t h (mkKV k st v) alloc_refuses)
      as [[[[t1 evs] unw] r]|er]; cbn [bind].
    - destruct unw; cbn [insert_post] in Hpost.
      + destruct Hpost as (_ & H1 & HA1 & _). unfold tunwind. apply TGood_ok; assumption.
      + destruct r as [s|]; [|contradiction]. destruct Hpost as (H1 & HA1 & _). apply TGood_ok; assumption.
    - destruct er; cbn [insert_post] in Hpost; try contradiction; cbn [TGood]; [left|right]; reflexivity.
  Qed.

  (* ---------------------------------------------------------------------------------------- *)
  (* retain, extract_if, drain: the table is mutated while a RawIter is live                    *)
  (* ---------------------------------------------------------------------------------------- *)
  Lemma tretain_good t keep bump : SAFE t -> OWN t -> TGood (STEP t (TRetain keep bump)).
  Proof.
    intros H HA. cbn [table_step].
    destruct (LoopInv_init B HW HB t H) as (it & En & HI). rewrite En. cbn [bind].
    rewrite t_retain_loop_eq.
    destruct (retain_loop_ok B HW HB needs_drop keep bump (S (buckets kv t)) t it (full_list t) [] HI)
      as (t' & evs' & E & H' & Em).
    { pose proof (full_list_le kv t). unfold nb in *. lia. }
    rewrite E. cbn [bind]. apply TGood_ok; [exact H'|exact (own_same' t t' Em HA)].
  Qed.

  Lemma textract_if_good t sel n : SAFE t -> OWN t -> TGood (STEP t (TExtractIf sel n)).
  Proof.
    intros H HA. cbn [table_step].
    destruct (LoopInv_init B HW HB t H) as (it & En & HI). rewrite En. cbn [bind].
    destruct (extract_loop_ok B HW HB sel (S (buckets kv t)) t it (full_list t) n [] [] HI)
      as (t' & acc' & evs' & E & H' & Em).
    { pose proof (full_list_le kv t). unfold nb in *. lia. }
    rewrite E. cbn [bind]. apply TGood_ok; [exact H'|exact (own_same' t t' Em HA)].
  Qed.

  Lemma tdrain_good t n : SAFE t -> OWN t -> TGood (STEP t (TDrain n)).
  Proof.
    intros H HA. cbn [table_step].
    pose proof (m_drain_good B HW HB tsize talign needs_drop t n H HA) as Hd.
    destruct (m_drain B needs_drop t n) as [[[t1 o] evs]|er]; cbn [bind]; [|exact Hd].
    destruct Hd as (H1 & HA1). apply TGood_ok; assumption.
  Qed.

  (* ---------------------------------------------------------------------------------------- *)
  (* clear, drop, with_capacity, reserve, try_reserve, shrink                                   *)
  (* ---------------------------------------------------------------------------------------- *)
  Lemma tclear_good t : SAFE t -> OWN t -> TGood (STEP t TClear).
  Proof.
    intros H HA. cbn [table_step].
    destruct (clear_safe B kv HW HB tsize talign needs_drop tdrop_ok t H) as (t' & evs & ok & E & H' & Em & _).
    rewrite E. cbn [bind]. pose proof (own_same' t t' Em HA) as HA'.
    destruct ok; unfold tunwind; apply TGood_ok; assumption.
  Qed.

  Lemma tdrop_good t : SAFE t -> OWN t -> TGood (STEP t TDropTable).
  Proof.
    intros H HA. cbn [table_step].
    destruct (drop_inner_ok B HW HB tsize talign HL needs_drop t H HA) as (evs0 & ok & E).
    change tdrop_ok with drop_ok. rewrite E. cbn [bind].
    apply TGood_ok; [apply new_table_safe|apply TOwn_new_table].
  Qed.

  Lemma twith_capacity_good t n : SAFE t -> OWN t -> (0 <= n < 2 ^ 64)%Z -> TGood (STEP t (TWithCapacity n)).
  Proof.
    intros H HA Hn. cbn [table_step].
    pose proof (fwc_infallible_cases B HW tsize talign HL alloc_refuses n Hn) as Hp.
    destruct (fallible_with_capacity B kv tsize talign n alloc_refuses Infallible) as [[[[nt|] evs] tr]|er];
      cbn [bind]; [| |exact Hp].
    - destruct (drop_inner_ok B HW HB tsize talign HL needs_drop t H HA) as (evs0 & ok & E).
      change tdrop_ok with drop_ok. rewrite E. cbn [bind]. destruct Hp as (H1 & H2). apply TGood_ok; assumption.
    - contradiction.
  Qed.

  Lemma twrap_try_good x (o : try_result -> tout) :
    (let '(t1, _, _, _) := x in SAFE t1 /\ OWN t1) -> TGood (wrap_try x o).
  Proof.
    destruct x as [[[t1 evs] tr] unw]. intros (H1 & H2). unfold wrap_try, tunwind.
    destruct unw; apply TGood_ok; assumption.
  Qed.

  Lemma treserve_good t n : SAFE t -> OWN t -> (0 <= n < 2 ^ 64)%Z -> TGood (STEP t (TReserve n)).
  Proof.
    intros H HA Hn. cbn [table_step]. change (thasher hash_of) with HSH.
    pose proof (reserve_cases B HW HB tsize talign HL needs_drop hash_of alloc_refuses t n H HA Hn) as Hp.
    destruct (reserve B kv tsize talign needs_drop HSH true t n alloc_refuses) as [x|er];
      cbn [bind]; [|exact Hp].
    apply twrap_try_good. destruct x as [[[t1 evs] tr] unw]. exact Hp.
  Qed.

  Lemma ttry_reserve_good t n : SAFE t -> OWN t -> (0 <= n < 2 ^ 64)%Z -> TGood (STEP t (TTryReserve n)).
  Proof.
    intros H HA Hn. cbn [table_step]. change (thasher hash_of) with HSH.
    pose proof (try_reserve_cases B HW HB tsize talign HL needs_drop hash_of alloc_refuses t n H HA Hn) as Hp.
    destruct (try_reserve B kv tsize talign needs_drop HSH true t n alloc_refuses) as [x|er];
      cbn [bind]; [|exact Hp].
    apply twrap_try_good. destruct x as [[[t1 evs] tr] unw]. exact Hp.
  Qed.

  Lemma tshrink_good t n : SAFE t -> OWN t -> (0 <= n < 2 ^ 64)%Z ->
    TGood ('(t1, evs, unw) <- shrink_to B kv tsize talign needs_drop tdrop_ok (thasher hash_of) t n alloc_refuses ;;
           if unw then tunwind t1 evs else Ok (t1, TOutUnit, evs)).
  Proof.
    intros H HA Hn. change (thasher hash_of) with HSH. change tdrop_ok with drop_ok.
    pose proof (shrink_cases B HW HB tsize talign HL needs_drop hash_of alloc_refuses t n H HA Hn) as Hp.
    destruct (shrink_to B kv tsize talign needs_drop drop_ok HSH t n alloc_refuses) as [[[t' evs] unw]|er];
      cbn [bind]; [|exact Hp].
    destruct Hp as (H1 & H2). destruct unw; unfold tunwind; apply TGood_ok; assumption.
  Qed.

  Lemma items_range t : SAFE t -> (0 <= items t < 2 ^ 64)%Z.
  Proof.
    intros H. destruct (safe_counts B kv t H) as (H0 & Hg & Hs & Hc & Hn).
    rewrite two_p_62 in Hn. rewrite two_p_64. lia.
  Qed.

  (* ---------------------------------------------------------------------------------------- *)
  (* read-only: iter, iter_hash, allocation_size                                                *)
  (* ---------------------------------------------------------------------------------------- *)
  Lemma titer_good t : SAFE t -> OWN t -> TGood (STEP t TIter).
  Proof.
    intros H HA. cbn [table_step].
    destruct (iter_exact B kv HW HB t H) as (it & En & Ea). rewrite En. cbn [bind]. rewrite Ea. cbn [bind].
    destruct (elems_at_ok t (full_list t) (full_list_refs B HW t H)) as (es & Ee). rewrite Ee. cbn [bind].
    apply TGood_ok; assumption.
  Qed.

  Lemma tallocation_size_good t : SAFE t -> OWN t -> TGood (STEP t TAllocationSize).
  Proof.
    intros H HA. cbn [table_step].
    destruct (allocation_size_total B kv tsize talign t HA) as (n & E & _). rewrite E. cbn [bind].
    apply TGood_ok; assumption.
  Qed.

  (* RawIterHash: the walk of find_inner without the callback.  Every bucket it reports is a live
     one: a reported bit is a true tag match or the portable scanner's false positive, FULL either
     way, and a FULL byte of a loaded group is a real control byte at the masked index *)
  Lemma iter_hash_singleton hash : iter_hash B (new_table B kv) hash = Ok [].
  Proof.
    pose proof (MapStepSafe.gw_pos B HW) as Hpos.
    unfold iter_hash.
    assert (Hfuel : probe_fuel B kv (new_table B kv) = 1).
    { unfold probe_fuel, buckets. cbn [mask new_table]. destruct HW as [E|E]; rewrite E; reflexivity. }
    assert (Hstart : n_probe_start (mask (new_table B kv)) hash = 0).
    { unfold n_probe_start, probe_seq, h1. cbn [mask new_table fst]. change (zn 0) with 0%Z.
      rewrite Z.land_0_r. reflexivity. }
    rewrite Hfuel, Hstart. cbn [iter_hash_loop].
    assert (Hload : load B kv (new_table B kv) 0 = Ok (repeat EMPTY GW)).
    { unfold load. cbn [ctrl new_table]. rewrite repeat_length. cbn [Nat.add]. rewrite Nat.leb_refl.
      cbn [skipn]. rewrite firstn_repeat_le by lia. reflexivity. }
    rewrite Hload. cbn [bind].
    assert (Hgok : group_ok GW (repeat EMPTY GW)).
    { split; [apply repeat_length|apply valid_repeat_EMPTY]. }
    assert (Hmt : g_match_tag B (repeat EMPTY GW) (tag_full hash) = []).
    { destruct (g_match_tag B (repeat EMPTY GW) (tag_full hash)) as [|j r] eqn:E; [reflexivity|]. exfalso.
      assert (Hin : In j (g_match_tag B (repeat EMPTY GW) (tag_full hash))) by (rewrite E; left; reflexivity).
      pose proof (tag_full_range hash) as Hr.
      pose proof (bs_match_tag_bound B HB _ _ j Hgok Hr Hin) as Hj.
      assert (En : nth j (repeat EMPTY GW) 0%Z = EMPTY) by (apply nth_repeat_lt; exact Hj).
      destruct (bs_match_tag_sound B HB _ _ j Hgok Hr Hin) as [H|[H _]]; rewrite En in H.
      - change EMPTY with 255%Z in H. lia.
      - pose proof (lxor1_full _ _ Hr H) as C. rewrite is_full_EMPTY in C. discriminate C. }
    rewrite Hmt. cbn [map].
    rewrite (bs_any_empty B HB _ Hgok).
    assert (Hex : existsb is_empty (repeat EMPTY GW) = true).
    { destruct GW; [lia|reflexivity]. }
    rewrite Hex. reflexivity.
  Qed.

  Section IterHash.
    Variable t : table kv.
    Hypothesis HS : Shape B kv t.
    Hypothesis HM : Mirror B kv t.
    Hypothesis HC : Count kv t.
    Variable hash : Z.

    Local Notation PS j := (pseq B (mask t) (n_probe_start (mask t) hash) j).

    Lemma iter_hash_loop_ok tag : (0 <= tag < 128)%Z -> forall n j,
      (exists j', j <= j' < j + n /\ HasEmpty B kv t hash j') ->
      exists idx, iter_hash_loop B n t tag (fst (PS j)) (snd (PS j)) = Ok idx /\
                  forall i, In i idx -> i < nb kv t /\ is_full (byte kv t i) = true.
    Proof.
      intros Htag. pose proof (Shape_MaskOK B kv t HS) as HMask.
      induction n as [|n IH]; intros j (j' & Hj' & He); [lia|].
      cbn [iter_hash_loop].
      destruct (load_PS B kv t HS HM hash j) as (g & Hg & Hok). rewrite Hg. cbn [bind].
      pose proof (PS_lt B kv t HS hash j) as Hpos.
      assert (Hhere : forall i, In i (map (fun b => n_land (fst (PS j) + b) (mask t)) (g_match_tag B g tag)) ->
                                i < nb kv t /\ is_full (byte kv t i) = true).
      { intros i Hin. apply in_map_iff in Hin. destruct Hin as (b & <- & Hb).
        pose proof (bs_match_tag_bound B HB g tag b Hok Htag Hb) as Hlt.
        assert (Hfull : is_full (nth b g 0%Z) = true).
        { destruct (bs_match_tag_sound B HB g tag b Hok Htag Hb) as [E | [E _]].
          - rewrite E. apply is_full_small. exact Htag.
          - apply (lxor1_full _ tag); assumption. }
        rewrite n_land_mod by exact HMask. fold (buckets kv t). fold (nb kv t).
        split; [apply Nat.mod_upper_bound; lia|].
        destruct (view_masked B kv HW t _ g HS HM Hpos Hg b Hlt) as [E | (_ & _ & E)].
        - rewrite <- E. exact Hfull.
        - rewrite E in Hfull. discriminate Hfull. }
      rewrite (bs_any_empty B HB g Hok).
      destruct (existsb is_empty g) eqn:Ee.
      - eexists. split; [reflexivity|exact Hhere].
      - rewrite <- pseq_S. destruct (PS (S j)) as [p' s'] eqn:EPS.
        specialize (IH (S j)). rewrite EPS in IH. cbn [fst snd] in IH.
        destruct IH as (rest & Er & Hrest).
        { exists j'. split; [|exact He].
          destruct (Nat.eq_dec j' j) as [->|]; [|lia].
          rewrite (HasEmpty_load B kv t hash j g He Hg) in Ee. discriminate Ee. }
        rewrite Er. cbn [bind]. eexists. split; [reflexivity|].
        intros i Hi. apply in_app_or in Hi. destruct Hi as [Hi|Hi]; [apply Hhere|apply Hrest]; exact Hi.
    Qed.

    Lemma iter_hash_alloc_ok :
      exists idx, iter_hash B t hash = Ok idx /\
                  forall i, In i idx -> i < nb kv t /\ is_full (byte kv t i) = true.
    Proof.
      unfold iter_hash. destruct (reach_empty B kv HW t HS HM HC hash) as (j & Hj & He).
      apply (iter_hash_loop_ok (tag_full hash) (tag_full_range hash) (probe_fuel B kv t) 0).
      exists j. split; [lia|exact He].
    Qed.
  End IterHash.

  Lemma iter_hash_refs t hash : SAFE t ->
    exists idx, iter_hash B t hash = Ok idx /\ forall i, In i idx -> exists e, slot_ref kv t i = Ok e.
  Proof.
    intros H. destruct (Nat.eq_dec (mask t) 0) as [Hm|Hm].
    - rewrite (singleton_eq' t H Hm). exists []. split; [apply iter_hash_singleton|intros i []].
    - destruct (SafeWF_alloc B kv t H Hm) as (HS & HM & HC).
      destruct (iter_hash_alloc_ok t HS HM HC hash) as (idx & E & Hidx).
      exists idx. split; [exact E|]. intros i Hi. destruct (Hidx i Hi) as (Hlt & Hf).
      destruct (full_slot_ref B t i H Hm Hlt Hf) as (e & _ & Er). exists e. exact Er.
  Qed.

  Lemma titer_hash_good t hk : SAFE t -> OWN t -> TGood (STEP t (TIterHash hk)).
  Proof.
    intros H HA. cbn [table_step]. apply TGood_with_h; [exact H|exact HA|]. intros h.
    destruct (iter_hash_refs t h H) as (idx & E & Hrefs). rewrite E. cbn [bind].
    destruct (elems_at_ok t idx Hrefs) as (es & Ee). rewrite Ee. cbn [bind].
    apply TGood_ok; assumption.
  Qed.

  (* ---------------------------------------------------------------------------------------- *)
  (* get_many_mut                                                                               *)
  (* ---------------------------------------------------------------------------------------- *)
  (* request i resolved to the bucket find returns for it *)
  Definition Resolved (t : table kv) (req : Z * tpred) (oi : option nat) : Prop :=
    exists h, hash_of (fst req) = Some h /\ find B kv t h (peq (snd req)) = Ok oi.

  Lemma many_find_ok t : SAFE t -> forall reqs,
    exists r, many_find B hash_of t reqs = Ok r /\
      match r with
      | None => exists req, In req reqs /\ hash_of (fst req) = None
      | Some l => Forall2 (Resolved t) reqs l
      end.
  Proof.
    intros H. induction reqs as [|[hk p] r IH].
    - exists (Some []). split; [reflexivity|constructor].
    - cbn [many_find]. destruct (hash_of hk) as [h|] eqn:Eh.
      + destruct (tfind_cases t h p H) as (oi & E & _). rewrite E. cbn [bind].
        destruct IH as (rr & Er & Hr). rewrite Er. cbn [bind].
        destruct rr as [l|].
        * exists (Some (oi :: l)). split; [reflexivity|]. constructor; [|exact Hr].
          exists h. split; [exact Eh|exact E].
        * exists None. split; [reflexivity|]. destruct Hr as (req & Hin & Hn).
          exists req. split; [right; exact Hin|exact Hn].
      + exists None. split; [reflexivity|]. exists (hk, p). split; [left; reflexivity|exact Eh].
  Qed.

  Lemma Resolved_found t req oi : SAFE t -> Resolved t req oi -> found_ok t (snd req) oi.
  Proof. intros H (h & _ & E). exact (tfind_found t h (snd req) oi H E). Qed.

  Lemma resolved_live t reqs l : SAFE t -> Forall2 (Resolved t) reqs l ->
    forall i, In i (somes l) -> mask t <> 0 /\ i < nb kv t /\ exists e, slot kv t i = Some e.
  Proof.
    intros H HF i Hi. apply somes_In in Hi.
    induction HF as [|req oi reqs l Hr _ IH]; [destruct Hi|].
    destruct Hi as [->|Hi]; [|exact (IH Hi)].
    destruct (Resolved_found t req (Some i) H Hr) as (Hm & Hlt & e & He & _).
    split; [exact Hm|]. split; [exact Hlt|]. exists e. exact He.
  Qed.

  (* the writes through the N returned references: distinct buckets, so every read sees the
     ORIGINAL element of its bucket, and nothing else is touched *)
  Definition bumped (t : table kv) (add : Z) (oi : option nat) : option kv :=
    match oi with Some i => option_map (bump add) (slot kv t i) | None => None end.

  Lemma bump_all_spec add : forall l t, SAFE t -> NoDup (somes l) ->
    (forall i, In i (somes l) -> mask t <> 0 /\ i < nb kv t /\ exists e, slot kv t i = Some e) ->
    exists t' os, bump_all t l add = Ok (t', os) /\ SAFE t' /\
      mask t' = mask t /\ ctrl t' = ctrl t /\ items t' = items t /\ growth_left t' = growth_left t /\
      (forall j, ~ In j (somes l) -> slot kv t' j = slot kv t j) /\
      (forall j, In j (somes l) -> slot kv t' j = option_map (bump add) (slot kv t j)) /\
      os = map (bumped t add) l.
  Proof.
    induction l as [|[i|] r IH]; intros t H Hnd Hlive.
    - exists t, []. cbn [bump_all somes map]. split; [reflexivity|]. split; [exact H|].
      split; [reflexivity|]. split; [reflexivity|]. split; [reflexivity|]. split; [reflexivity|].
      split; [intros j _; reflexivity|]. split; [intros j []|reflexivity].
    - cbn [somes] in Hnd, Hlive. inversion Hnd as [|? ? Hnotin Hnd']; subst.
      destruct (Hlive i (or_introl eq_refl)) as (Hm & Hi & e & He).
      cbn [bump_all]. rewrite (some_slot_ref' t i e H Hm Hi He). cbn [bind]. cbv zeta.
      change (mkKV (k_id e) (k_stamp e) (wadd 64 (v_val e) add)) with (bump add e).
      destruct (slot_write_value_safe B kv t i e (bump add e) H Hm Hi He)
        as (t1 & Ew & H1 & Em1 & Ec1 & Eit1 & Egl1 & _ & Hsi1 & Hso1 & _).
      rewrite Ew. cbn [bind].
      assert (Enb1 : nb kv t1 = nb kv t) by (unfold nb, buckets; rewrite Em1; reflexivity).
      assert (Hne : forall j, In j (somes r) -> j <> i) by (intros j Hj ->; contradiction).
      destruct (IH t1 H1 Hnd') as (t' & os & E & H' & Em & Ec & Eit & Egl & Hout & Hin & Eos).
      { intros j Hj. destruct (Hlive j (or_intror Hj)) as (_ & Hlt & x & Hx).
        split; [congruence|]. split; [lia|]. exists x. rewrite (Hso1 j (Hne j Hj)). exact Hx. }
      rewrite E. cbn [bind]. exists t', (Some (bump add e) :: os). split; [reflexivity|].
      split; [exact H'|]. split; [congruence|]. split; [congruence|]. split; [congruence|].
      split; [congruence|]. split; [|split].
      + intros j Hj. cbn [somes In] in Hj.
        rewrite (Hout j ltac:(tauto)). apply Hso1. intros ->. tauto.
      + intros j [<-|Hj].
        * rewrite (Hout i Hnotin), Hsi1, He. reflexivity.
        * rewrite (Hin j Hj), (Hso1 j (Hne j Hj)). reflexivity.
      + cbn [map bumped]. rewrite He. cbn [option_map]. f_equal. rewrite Eos.
        apply map_ext_in. intros [j|] Hj; [|reflexivity]. cbn [bumped].
        rewrite (Hso1 j (Hne j (proj2 (somes_In r j) Hj))). reflexivity.
    - cbn [somes] in Hnd, Hlive. cbn [bump_all].
      destruct (IH t H Hnd Hlive) as (t' & os & E & H' & Em & Ec & Eit & Egl & Hout & Hin & Eos).
      rewrite E. cbn [bind]. exists t', (None :: os). split; [reflexivity|].
      repeat (split; [assumption|]). cbn [map bumped]. f_equal. exact Eos.
  Qed.

  Lemma tget_many_mut_good t reqs add : SAFE t -> OWN t -> TGood (STEP t (TGetManyMut reqs add)).
  Proof.
    intros H HA. cbn [table_step].
    destruct (many_find_ok t H reqs) as (r & E & Hr). rewrite E. cbn [bind].
    destruct r as [l|]; [|unfold tunwind; apply TGood_ok; assumption].
    destruct (has_dup l) eqn:Ed; [apply TGood_ok; assumption|].
    destruct (bump_all_spec add l t H (has_dup_NoDup l Ed) (resolved_live t reqs l H Hr))
      as (t' & os & Eb & H' & Em & _).
    rewrite Eb. cbn [bind]. apply TGood_ok; [exact H'|exact (own_same' t t' Em HA)].
  Qed.

  (* ---------------------------------------------------------------------------------------- *)
  (* every operation                                                                            *)
  (* ---------------------------------------------------------------------------------------- *)
  Theorem table_step_good t op : top_args_ok op -> SAFE t -> OWN t -> TGood (STEP t op).
  Proof.
    intros Hargs H HA. destruct op; cbn [top_args_ok] in Hargs.
    - exact (twith_capacity_good t n H HA Hargs).
    - exact (tfind_good t hk p H HA).
    - exact (tfind_mut_good t hk p newv H HA).
    - exact (tfind_entry_remove_good t hk p H HA).
    - exact (tremove_reinsert_good t hk p stamp v H HA).
    - exact (tentry_insert_good t k stamp v H HA).
    - exact (tentry_or_insert_good t k stamp v H HA).
    - exact (tentry_drop_good t k H HA).
    - exact (tinsert_unique_good t k stamp v H HA).
    - exact (tretain_good t keep bump H HA).
    - exact (textract_if_good t sel n H HA).
    - exact (tdrain_good t n H HA).
    - exact (tclear_good t H HA).
    - exact (treserve_good t n H HA Hargs).
    - exact (ttry_reserve_good t n H HA Hargs).
    - exact (tshrink_good t n H HA Hargs).
    - exact (tshrink_good t (items t) H HA (items_range t H)).
    - exact (tget_many_mut_good t reqs add H HA).
    - exact (titer_hash_good t hk H HA).
    - exact (titer_good t H HA).
    - cbn [table_step]. apply TGood_ok; assumption.
    - cbn [table_step]. apply TGood_ok; assumption.
    - exact (tallocation_size_good t H HA).
    - exact (tdrop_good t H HA).
  Qed.

  (* ---------------------------------------------------------------------------------------- *)
  (* C15: get_many_mut hands out references to pairwise distinct buckets                        *)
  (* ---------------------------------------------------------------------------------------- *)
  (* what request `req`, resolved to `oi`, got back: nothing if find found nothing; otherwise the
     element of the bucket after the write, whose pre-image is the stored element that the
     closure accepted *)
  Definition Handed (t t' : table kv) (add : Z) (req : Z * tpred) (oi : option nat) (o : option kv) : Prop :=
    match oi, o with
    | None, None => True
    | Some i, Some e' =>
        exists e, slot kv t i = Some e /\ tpred_holds (snd req) e = true /\
                  e' = bump add e /\ slot kv t' i = Some e'
    | _, _ => False
    end.

  Fixpoint Forall3 {X Y Z} (R : X -> Y -> Z -> Prop) (a : list X) (b : list Y) (c : list Z) : Prop :=
    match a, b, c with
    | [], [], [] => True
    | x :: a', y :: b', z :: c' => R x y z /\ Forall3 R a' b' c'
    | _, _, _ => False
    end.

  Lemma Forall3_length {X Y Z} (R : X -> Y -> Z -> Prop) a b c :
    Forall3 R a b c -> length a = length b /\ length b = length c.
  Proof.
    revert b c. induction a as [|x a IH]; intros [|y b] [|z c] H; cbn [Forall3] in H; try contradiction.
    - split; reflexivity.
    - destruct H as (_ & H). destruct (IH b c H). cbn [length]. split; congruence.
  Qed.

  Theorem get_many_mut_distinct t reqs add t' os evs : SAFE t -> OWN t ->
    STEP t (TGetManyMut reqs add) = Ok (t', TOutOpts os, evs) ->
    exists l, many_find B hash_of t reqs = Ok (Some l) /\ has_dup l = false /\
      (* request i resolved to what find answers for it, in request order *)
      Forall2 (Resolved t) reqs l /\
      (* the buckets resolved for the Some results are pairwise distinct *)
      NoDup (somes l) /\
      (* result i is Some iff find for request i found a bucket; it is that bucket's element *)
      Forall3 (Handed t t' add) reqs l os /\ length os = length reqs /\
      (* only the requested buckets changed, and only their elements *)
      (forall j, ~ In j (somes l) -> slot kv t' j = slot kv t j) /\
      ctrl t' = ctrl t /\ mask t' = mask t /\ items t' = items t /\ growth_left t' = growth_left t /\
      evs = [].
  Proof.
    intros H HA. cbn [table_step].
    destruct (many_find_ok t H reqs) as (r & E & Hr). rewrite E. cbn [bind].
    destruct r as [l|]; [|unfold tunwind; intros C; discriminate C].
    destruct (has_dup l) eqn:Ed; [intros C; discriminate C|].
    pose proof (has_dup_NoDup l Ed) as Hnd.
    destruct (bump_all_spec add l t H Hnd (resolved_live t reqs l H Hr))
      as (t1 & os1 & Eb & H1 & Em & Ec & Eit & Egl & Hout & Hin & Eos).
    rewrite Eb. cbn [bind]. intros E1. injection E1 as <- <- <-.
    exists l. split; [reflexivity|]. split; [exact Ed|]. split; [exact Hr|]. split; [exact Hnd|].
    assert (H3 : Forall3 (Handed t t1 add) reqs l os1).
    { rewrite Eos. clear Eos Eb Hout Hnd Ed E.
      assert (Hsub : forall j, In (Some j) l -> slot kv t1 j = option_map (bump add) (slot kv t j)).
      { intros j Hj. apply Hin. apply somes_In. exact Hj. }
      clear Hin. induction Hr as [|req oi reqs l Hres _ IH]; [exact I|].
      cbn [map Forall3]. split; [|apply IH; intros j Hj; apply Hsub; right; exact Hj].
      pose proof (Resolved_found t req oi H Hres) as Hf.
      destruct oi as [i|]; cbn [bumped Handed]; [|exact I].
      destruct Hf as (_ & _ & e & He & _ & HP). rewrite He. cbn [option_map].
      exists e. split; [reflexivity|]. split; [exact HP|]. split; [reflexivity|].
      rewrite (Hsub i (or_introl eq_refl)), He. reflexivity. }
    split; [exact H3|]. destruct (Forall3_length _ _ _ _ H3) as (L1 & L2).
    split; [congruence|]. repeat (split; [assumption|]). reflexivity.
  Qed.

  (* the statement on many_find alone *)
  Corollary many_find_distinct t reqs l :
    many_find B hash_of t reqs = Ok (Some l) -> has_dup l = false -> NoDup (somes l).
  Proof. intros _ Hd. exact (has_dup_NoDup l Hd). Qed.

  (* "duplicate keys found" is raised exactly when two requests resolved to the same bucket;
     nothing has been written then *)
  Theorem get_many_mut_panic_iff t reqs add t' o evs : SAFE t -> OWN t ->
    STEP t (TGetManyMut reqs add) = Ok (t', o, evs) ->
    (o = TOutLibPanic <->
     exists l, many_find B hash_of t reqs = Ok (Some l) /\
       exists a b i, a < b /\ nth_error l a = Some (Some i) /\ nth_error l b = Some (Some i)) /\
    (o = TOutLibPanic -> t' = t /\ evs = []).
  Proof.
    intros H HA. cbn [table_step].
    destruct (many_find_ok t H reqs) as (r & E & Hr). rewrite E. cbn [bind].
    destruct r as [l|].
    - destruct (has_dup l) eqn:Ed.
      + intros E1. injection E1 as <- <- <-. split; [|intros _; split; reflexivity].
        split; [intros _|reflexivity]. exists l. split; [reflexivity|]. apply has_dup_true_iff. exact Ed.
      + destruct (bump_all_spec add l t H (has_dup_NoDup l Ed) (resolved_live t reqs l H Hr))
          as (t1 & os1 & Eb & _).
        rewrite Eb. cbn [bind]. intros E1. injection E1 as <- <- <-.
        split; [|intros C; discriminate C]. split; [intros C; discriminate C|].
        intros (l' & El & Hdup). injection El as <-. apply has_dup_true_iff in Hdup. congruence.
    - unfold tunwind. intros E1. injection E1 as <- <- <-.
      split; [|intros C; discriminate C]. split; [intros C; discriminate C|].
      intros (l' & El & _). discriminate El.
  Qed.
End TableStepSafe.

(* ------------------------------------------------------------------------------------------ *)
(* the safety theorem                                                                           *)
(* ------------------------------------------------------------------------------------------ *)
Theorem table_step_safe :
  forall B tsize talign needs_drop hash_of alloc_refuses (t : table kv) (op : tbl_op),
  WidthOK B -> BackendSpec B -> LayoutOK tsize talign -> top_args_ok op ->
  SafeWF B kv t -> TOwn B kv tsize talign t ->
  match table_step B tsize talign needs_drop true hash_of alloc_refuses t op with
  | Ok (t', o, evs) => SafeWF B kv t' /\ TOwn B kv tsize talign t'
  | Fail e => benign e
  end.
Proof.
  intros B tsize talign needs_drop hash_of alloc_refuses t op HW HB HL Hargs H HA.
  exact (table_step_good B HW HB tsize talign HL needs_drop hash_of alloc_refuses t op Hargs H HA).
Qed.

(* histories: each operation comes with the allocator's answer and the caller's hash function for
   that step (it may change from call to call); the run stops at the first failure *)
Fixpoint trun_var (B : backend) (tsize talign : Z) (needs_drop : bool)
         (t : table kv) (ops : list (tbl_op * bool * (Z -> option Z))) : res (table kv) :=
  match ops with
  | [] => Ok t
  | (op, ar, hash_of) :: r =>
      match table_step B tsize talign needs_drop true hash_of ar t op with
      | Ok (t', _, _) => trun_var B tsize talign needs_drop t' r
      | Fail e => Fail e
      end
  end.

Theorem trun_var_safe :
  forall (B : backend) (tsize talign : Z) (needs_drop : bool)
         (ops : list (tbl_op * bool * (Z -> option Z))),
  WidthOK B -> BackendSpec B -> LayoutOK tsize talign ->
  (forall op, In op (map (fun x => fst (fst x)) ops) -> top_args_ok op) ->
  match trun_var B tsize talign needs_drop (new_table B kv) ops with
  | Ok t' => SafeWF B kv t' /\ TOwn B kv tsize talign t'
  | Fail e => benign e
  end.
Proof.
  intros B tsize talign needs_drop ops HW HB HL.
  assert (Hgen : forall ops t,
    (forall op, In op (map (fun x => fst (fst x)) ops) -> top_args_ok op) ->
    SafeWF B kv t -> TOwn B kv tsize talign t ->
    match trun_var B tsize talign needs_drop t ops with
    | Ok t' => SafeWF B kv t' /\ TOwn B kv tsize talign t'
    | Fail e => benign e
    end).
  { clear ops. induction ops as [|[[op ar] hash_of] r IH]; intros t Hargs H HA.
    - cbn [trun_var]. split; assumption.
    - cbn [trun_var].
      pose proof (table_step_safe B tsize talign needs_drop hash_of ar t op HW HB HL
                    (Hargs op (or_introl eq_refl)) H HA) as Hstep.
      destruct (table_step B tsize talign needs_drop true hash_of ar t op) as [[[t' o] evs]|e].
      + destruct Hstep as (H' & HA'). apply IH; [|exact H'|exact HA'].
        intros op' Hin. apply Hargs. right. exact Hin.
      + exact Hstep. }
  intros Hargs. apply Hgen; [exact Hargs|apply new_table_safe|apply TOwn_new_table].
Qed.

Print Assumptions table_step_safe.
Print Assumptions trun_var_safe.
Print Assumptions get_many_mut_distinct.
Print Assumptions many_find_distinct.
Print Assumptions get_many_mut_panic_iff.
