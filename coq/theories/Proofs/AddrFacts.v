(* AddrFacts.v -- facts about the address model of buckets and control bytes (Model/Addr.v).
   Everything is derived from the GENERATED layout arithmetic through
   ArithFacts.calculate_layout_for_spec / layout_result_ok. *)
From Coq Require Import ZArith List Bool Lia Znumtheory Zpow_facts.
From HB Require Import RsPrelude Sse2 Gen ArithFacts Addr.
Open Scope Z_scope.

(* ------------------------------------------------------------------------------------------ *)
(* Powers of two                                                                                *)
(* ------------------------------------------------------------------------------------------ *)

Lemma pow2_divide a c : 0 <= a <= c -> (2 ^ a | 2 ^ c).
Proof.
  intros H. exists (2 ^ (c - a)). rewrite <- Z.pow_add_r by lia. f_equal. lia.
Qed.

Lemma GW_pow2 GW : GW = 8 \/ GW = 16 -> exists g, 3 <= g <= 4 /\ GW = 2 ^ g.
Proof. intros [->| ->]; [exists 3|exists 4]; split; try lia; reflexivity. Qed.

(* ctrl_align = max(align_of T, Group::WIDTH) is a power of two that both divide *)
Lemma ctrl_align_pow2 GW tsize a :
  GW = 8 \/ GW = 16 -> 0 <= a <= 62 ->
  exists j, 0 <= j <= 62 /\ ctrl_align GW tsize (2 ^ a) = 2 ^ j /\ GW <= 2 ^ j /\
            (2 ^ a | 2 ^ j) /\ (GW | 2 ^ j).
Proof.
  intros HGW Ha. destruct (GW_pow2 GW HGW) as (g & Hg & ->).
  unfold ctrl_align. rewrite table_layout_new_spec. cbn [snd].
  destruct (Z.le_ge_cases a g) as [Hag|Hag].
  - exists g. pose proof (pow2_le_mono a g ltac:(lia)).
    repeat split; try lia.
    + apply pow2_divide; lia.
    + apply Z.divide_refl.
  - exists a. pose proof (pow2_le_mono g a ltac:(lia)).
    repeat split; try lia.
    + apply Z.divide_refl.
    + apply pow2_divide; lia.
Qed.

(* ------------------------------------------------------------------------------------------ *)
(* What a valid layout gives (the single place where the generated arithmetic is opened)        *)
(* ------------------------------------------------------------------------------------------ *)

Lemma valid_layout_facts GW tsize talign b len al off :
  valid_layout GW tsize talign b len al off ->
  (GW = 8 \/ GW = 16) /\ 0 <= tsize /\ 0 < talign /\ 0 < b <= 2 ^ 62 /\
  al = ctrl_align GW tsize talign /\ al = Z.max talign GW /\
  (talign | al) /\ (GW | al) /\ (al | off) /\ (talign | tsize) /\
  tsize * b <= off /\ off < tsize * b + al /\
  len = off + b + GW /\ len + (al - 1) < 2 ^ 63.
Proof.
  intros (HGW & Hts & (a & Ha & ->) & Hdiv & (k & Hk & ->) & HL).
  destruct (ctrl_align_pow2 GW tsize a HGW Ha) as (j & Hj & Ej & HGWj & Hd1 & Hd2).
  unfold table_alloc_layout in HL.
  assert (Efst : fst (table_layout_new GW tsize (2 ^ a)) = tsize) by reflexivity.
  rewrite Efst in HL. fold (ctrl_align GW tsize (2 ^ a)) in HL.
  assert (Emax : ctrl_align GW tsize (2 ^ a) = Z.max (2 ^ a) GW).
  { unfold ctrl_align. rewrite table_layout_new_spec. reflexivity. }
  rewrite Ej in HL.
  rewrite calculate_layout_for_spec in HL by (try assumption; lia).
  pose proof (pow2_pos a ltac:(lia)) as Hpa.
  pose proof (pow2_pos j ltac:(lia)) as Hpj.
  pose proof (pow2_pos k ltac:(lia)) as Hpk.
  pose proof (pow2_le_mono k 62 ltac:(lia)) as Hk62.
  apply layout_result_ok in HL; try lia; try assumption.
  destruct HL as (Eal & Hdo & Hlo & Hhi & Elen & _ & Hlen).
  subst al. rewrite Ej, <- Emax, Ej.
  repeat split; try assumption; try lia.
Qed.

(* ------------------------------------------------------------------------------------------ *)
(* Elements                                                                                     *)
(* ------------------------------------------------------------------------------------------ *)

Lemma elements_in_block GW tsize talign b len al off :
  valid_layout GW tsize talign b len al off ->
  forall i, 0 <= i < b ->
    0 <= off - (i + 1) * tsize /\ off - (i + 1) * tsize <= off - i * tsize /\
    off - i * tsize <= off /\ off <= len.
Proof.
  intros HV i Hi.
  destruct (valid_layout_facts _ _ _ _ _ _ _ HV)
    as (HGW & Hts & Hta & Hb & _ & _ & _ & _ & _ & _ & Hlo & _ & Elen & _).
  assert ((i + 1) * tsize <= tsize * b) by nia.
  assert (0 <= i * tsize) by nia.
  assert (0 < GW) by lia.
  repeat split; lia.
Qed.

Lemma elem_range_in_block GW tsize talign b len al off :
  valid_layout GW tsize talign b len al off ->
  forall i, 0 <= i < b ->
    range_in_block len (elem_range tsize off i) /\ snd (elem_range tsize off i) <= ctrl_base off.
Proof.
  intros HV i Hi. destruct (elements_in_block _ _ _ _ _ _ _ HV i Hi) as (H1 & H2 & H3 & H4).
  unfold range_in_block, elem_range, ctrl_base. cbn [fst snd]. lia.
Qed.

Lemma elements_aligned GW tsize talign b len al off :
  valid_layout GW tsize talign b len al off ->
  forall i, (talign | off - (i + 1) * tsize).
Proof.
  intros HV i.
  destruct (valid_layout_facts _ _ _ _ _ _ _ HV)
    as (_ & _ & _ & _ & _ & _ & Hta & _ & Hao & Hdiv & _).
  apply Z.divide_sub_r.
  - apply Z.divide_trans with al; assumption.
  - apply Z.divide_mul_r. assumption.
Qed.

Lemma bucket_ptr_nz tsize off i : tsize <> 0 -> bucket_ptr tsize off i = off - i * tsize.
Proof. intros H. unfold bucket_ptr, data_end. destruct (Z.eqb_spec tsize 0); [contradiction|reflexivity]. Qed.

Lemma bucket_ptr_z off i : bucket_ptr 0 off i = i + 1.
Proof. reflexivity. Qed.

Lemma bucket_as_ptr_nz tsize talign p : tsize <> 0 -> bucket_as_ptr tsize talign p = p - tsize.
Proof. intros H. unfold bucket_as_ptr. destruct (Z.eqb_spec tsize 0); [contradiction|reflexivity]. Qed.

Lemma bucket_as_ptr_z talign p : bucket_as_ptr 0 talign p = talign.
Proof. reflexivity. Qed.

(* as_ptr of bucket i is the start of elem_range i, and equals RawTableInner::bucket_ptr *)
Lemma bucket_as_ptr_start tsize talign off i :
  0 < tsize ->
  bucket_as_ptr tsize talign (bucket_ptr tsize off i) = fst (elem_range tsize off i) /\
  bucket_ptr tsize off i = snd (elem_range tsize off i) /\
  inner_bucket_ptr tsize off i = fst (elem_range tsize off i).
Proof.
  intros H. rewrite bucket_as_ptr_nz, bucket_ptr_nz by lia.
  unfold elem_range, inner_bucket_ptr, data_end. cbn [fst snd]. repeat split; lia.
Qed.

Lemma bucket_as_ptr_aligned GW tsize talign b len al off :
  valid_layout GW tsize talign b len al off ->
  forall i, (talign | bucket_as_ptr tsize talign (bucket_ptr tsize off i)).
Proof.
  intros HV i. unfold bucket_as_ptr. destruct (Z.eqb_spec tsize 0) as [E|E].
  - apply Z.divide_refl.
  - rewrite bucket_ptr_nz by assumption.
    replace (off - i * tsize - tsize) with (off - (i + 1) * tsize) by lia.
    eapply elements_aligned; eassumption.
Qed.

Lemma elements_disjoint tsize off i j :
  0 < tsize -> 0 <= i -> 0 <= j -> i <> j ->
  ranges_disjoint (elem_range tsize off i) (elem_range tsize off j).
Proof.
  intros Hts Hi Hj Hij. unfold ranges_disjoint, elem_range. cbn [fst snd].
  destruct (Z.lt_ge_cases i j); [right|left]; nia.
Qed.

Lemma bucket_ptr_inj_nz tsize off i j :
  tsize <> 0 -> bucket_ptr tsize off i = bucket_ptr tsize off j -> i = j.
Proof.
  intros Hts. rewrite !bucket_ptr_nz by assumption. intros E.
  assert (E' : i * tsize = j * tsize) by lia.
  apply Z.mul_reg_r in E'; assumption.
Qed.

Lemma bucket_as_ptr_inj_nz tsize talign off i j :
  tsize <> 0 ->
  bucket_as_ptr tsize talign (bucket_ptr tsize off i) =
  bucket_as_ptr tsize talign (bucket_ptr tsize off j) -> i = j.
Proof.
  intros Hts. rewrite !bucket_as_ptr_nz by assumption. intros E.
  apply (bucket_ptr_inj_nz tsize off); [assumption|lia].
Qed.

Lemma elements_disjoint_all GW tsize talign b len al off :
  valid_layout GW tsize talign b len al off -> 0 < tsize ->
  forall i j, 0 <= i < b -> 0 <= j < b -> i <> j ->
    ranges_disjoint (elem_range tsize off i) (elem_range tsize off j) /\
    bucket_ptr tsize off i <> bucket_ptr tsize off j /\
    bucket_as_ptr tsize talign (bucket_ptr tsize off i) <>
    bucket_as_ptr tsize talign (bucket_ptr tsize off j).
Proof.
  intros _ Hts i j Hi Hj Hij. split; [|split].
  - apply elements_disjoint; lia.
  - intros E. apply Hij. eapply bucket_ptr_inj_nz; [|exact E]. lia.
  - intros E. apply Hij. eapply bucket_as_ptr_inj_nz; [|exact E]. lia.
Qed.

(* ------------------------------------------------------------------------------------------ *)
(* Zero-sized T                                                                                 *)
(* ------------------------------------------------------------------------------------------ *)

Lemma zst_as_ptr_not_injective talign off i j :
  bucket_as_ptr 0 talign (bucket_ptr 0 off i) = bucket_as_ptr 0 talign (bucket_ptr 0 off j).
Proof. reflexivity. Qed.

Lemma zst_pointers GW talign b len al off :
  valid_layout GW 0 talign b len al off ->
  (forall i, 0 <= i < b ->
     bucket_ptr 0 off i = i + 1 /\
     0 < bucket_ptr 0 off i < 2 ^ 64 /\
     to_base_index 0 off (bucket_ptr 0 off i) = i /\
     bucket_as_ptr 0 talign (bucket_ptr 0 off i) = talign /\
     0 < talign /\ (talign | bucket_as_ptr 0 talign (bucket_ptr 0 off i))) /\
  (forall i j, bucket_ptr 0 off i = bucket_ptr 0 off j -> i = j) /\
  (forall i j, bucket_as_ptr 0 talign (bucket_ptr 0 off i) =
               bucket_as_ptr 0 talign (bucket_ptr 0 off j)).
Proof.
  intros HV.
  destruct (valid_layout_facts _ _ _ _ _ _ _ HV) as (_ & _ & Hta & Hb & _).
  split; [|split].
  - intros i Hi. rewrite bucket_ptr_z, bucket_as_ptr_z.
    assert (2 ^ 62 < 2 ^ 64) by (rewrite two_p_62, two_p_64; lia).
    repeat split; try lia.
    + unfold to_base_index. cbn [Z.eqb]. lia.
    + apply Z.divide_refl.
  - intros i j. rewrite !bucket_ptr_z. lia.
  - intros i j. reflexivity.
Qed.

(* ------------------------------------------------------------------------------------------ *)
(* Index round trip                                                                             *)
(* ------------------------------------------------------------------------------------------ *)

Lemma to_base_index_bucket_ptr tsize off i :
  0 <= tsize -> to_base_index tsize off (bucket_ptr tsize off i) = i.
Proof.
  intros Hts. unfold to_base_index, bucket_ptr, data_end.
  destruct (Z.eqb_spec tsize 0) as [E|E]; [lia|].
  replace (off - (off - i * tsize)) with (i * tsize) by lia.
  apply Z.div_mul. assumption.
Qed.

Lemma next_n_bucket_ptr tsize off i n :
  next_n tsize (bucket_ptr tsize off i) n = bucket_ptr tsize off (i + n).
Proof.
  unfold next_n, bucket_ptr, data_end. destruct (Z.eqb_spec tsize 0); lia.
Qed.

(* offset_from requires the byte distance to be an exact multiple of size_of::<T>() *)
Lemma offset_from_exact tsize off i :
  tsize <> 0 -> (tsize | data_end off - bucket_ptr tsize off i).
Proof.
  intros Hts. rewrite bucket_ptr_nz by assumption. unfold data_end. exists i. lia.
Qed.

Lemma index_roundtrip GW tsize talign b len al off :
  valid_layout GW tsize talign b len al off ->
  forall i, 0 <= i < b ->
    to_base_index tsize off (bucket_ptr tsize off i) = i /\
    (forall n, 0 <= n -> i + n <= b ->
       next_n tsize (bucket_ptr tsize off i) n = bucket_ptr tsize off (i + n) /\
       (tsize = 0 -> 0 < bucket_ptr tsize off (i + n) < 2 ^ 64) /\
       (0 < tsize -> 0 <= bucket_ptr tsize off (i + n) <= off)).
Proof.
  intros HV i Hi.
  destruct (valid_layout_facts _ _ _ _ _ _ _ HV)
    as (_ & Hts & _ & Hb & _ & _ & _ & _ & _ & _ & Hlo & _).
  split; [apply to_base_index_bucket_ptr; assumption|].
  intros n Hn Hin. split; [apply next_n_bucket_ptr|]. split.
  - intros ->. rewrite bucket_ptr_z.
    assert (2 ^ 62 < 2 ^ 64) by (rewrite two_p_62, two_p_64; lia). lia.
  - intros Hp. rewrite bucket_ptr_nz by lia.
    assert ((i + n) * tsize <= tsize * b) by nia.
    assert (0 <= (i + n) * tsize) by nia. lia.
Qed.

(* ------------------------------------------------------------------------------------------ *)
(* Control bytes                                                                                *)
(* ------------------------------------------------------------------------------------------ *)

Lemma num_ctrl_bytes_exact GW b :
  (GW = 8 \/ GW = 16) -> 0 < b <= 2 ^ 62 -> num_ctrl_bytes GW (b - 1) = b + GW.
Proof.
  intros HGW Hb. unfold num_ctrl_bytes, wadd. rewrite two_p_62 in Hb.
  replace (b - 1 + 1) with b by lia.
  rewrite (wrap_small 64 b) by (rewrite two_p_64; lia).
  apply wrap_small. rewrite two_p_64. lia.
Qed.

Lemma ctrl_in_block GW tsize talign b len al off :
  valid_layout GW tsize talign b len al off ->
  num_ctrl_bytes GW (b - 1) = b + GW /\
  (forall j, 0 <= j < num_ctrl_bytes GW (b - 1) -> off <= ctrl_addr off j < len) /\
  (forall i j, 0 <= i < b -> 0 <= j -> snd (elem_range tsize off i) <= ctrl_addr off j).
Proof.
  intros HV.
  destruct (valid_layout_facts _ _ _ _ _ _ _ HV)
    as (HGW & Hts & _ & Hb & _ & _ & _ & _ & _ & _ & _ & _ & Elen & _).
  assert (En : num_ctrl_bytes GW (b - 1) = b + GW) by (apply num_ctrl_bytes_exact; assumption).
  rewrite En. split; [reflexivity|]. split.
  - intros j Hj. unfold ctrl_addr. lia.
  - intros i j Hi Hj. unfold ctrl_addr, elem_range. cbn [snd].
    assert (0 <= i * tsize) by nia. lia.
Qed.

Lemma group_loads GW tsize talign b len al off :
  valid_layout GW tsize talign b len al off ->
  forall p, 0 <= p -> p + GW <= b + GW ->
    off <= fst (group_range GW off p) /\ snd (group_range GW off p) <= len /\
    snd (group_range GW off p) = fst (group_range GW off p) + GW /\
    forall base, (al | base) -> (GW | p) -> (GW | abs base (ctrl_addr off p)).
Proof.
  intros HV p Hp HpG.
  destruct (valid_layout_facts _ _ _ _ _ _ _ HV)
    as (HGW & _ & _ & Hb & _ & _ & _ & HGa & Hao & _ & _ & _ & Elen & _).
  unfold group_range, ctrl_addr, abs. cbn [fst snd].
  repeat split; try lia.
  intros base Hbase HGp.
  apply Z.divide_add_r; [|apply Z.divide_add_r].
  - apply Z.divide_trans with al; assumption.
  - apply Z.divide_trans with al; assumption.
  - assumption.
Qed.

Lemma absolute_alignment GW tsize talign b len al off base :
  valid_layout GW tsize talign b len al off -> (al | base) ->
  (forall i, (talign | abs base (off - (i + 1) * tsize))) /\
  (0 < tsize -> forall i,
     (talign | abs base (bucket_as_ptr tsize talign (bucket_ptr tsize off i)))) /\
  (forall p, (GW | p) -> (GW | abs base (ctrl_addr off p))) /\
  (GW | abs base (ctrl_base off)) /\
  allocation_start (abs base (ctrl_base off)) off = base.
Proof.
  intros HV Hbase.
  destruct (valid_layout_facts _ _ _ _ _ _ _ HV)
    as (HGW & _ & _ & Hb & _ & _ & Hta & HGa & Hao & _ & _ & _ & _ & _).
  assert (Htb : (talign | base)) by (apply Z.divide_trans with al; assumption).
  assert (HGb : (GW | base)) by (apply Z.divide_trans with al; assumption).
  assert (HGo : (GW | off)) by (apply Z.divide_trans with al; assumption).
  split; [|split; [|split; [|split]]].
  - intros i. unfold abs. apply Z.divide_add_r; [assumption|].
    eapply elements_aligned; eassumption.
  - intros Hts i. unfold abs. apply Z.divide_add_r; [assumption|].
    eapply bucket_as_ptr_aligned; eassumption.
  - intros p HGp. unfold abs, ctrl_addr.
    apply Z.divide_add_r; [assumption|]. apply Z.divide_add_r; assumption.
  - unfold abs, ctrl_base. apply Z.divide_add_r; assumption.
  - unfold allocation_start, abs, ctrl_base. lia.
Qed.

(* A non-null block gives non-null bucket pointers (NonNull::new_unchecked in from_base_index /
   next_n), also for the one-past pointer of the last element. *)
Lemma bucket_ptr_nonnull GW tsize talign b len al off base :
  valid_layout GW tsize talign b len al off -> 0 < base -> 0 < tsize ->
  forall i, 0 <= i <= b -> 0 < abs base (bucket_ptr tsize off i).
Proof.
  intros HV Hbase Hts i Hi.
  destruct (valid_layout_facts _ _ _ _ _ _ _ HV)
    as (_ & _ & _ & Hb & _ & _ & _ & _ & _ & _ & Hlo & _).
  rewrite bucket_ptr_nz by lia. unfold abs.
  assert (i * tsize <= tsize * b) by nia. lia.
Qed.

(* ------------------------------------------------------------------------------------------ *)
(* Statement forms used by Properties/C02a.v                                                    *)
(* ------------------------------------------------------------------------------------------ *)

Lemma valid_layout_meaning GW tsize talign b len al off :
  valid_layout GW tsize talign b len al off <->
  ((GW = 8 \/ GW = 16) /\
   0 <= tsize < 2 ^ 64 /\
   (exists a, 0 <= a <= 62 /\ talign = 2 ^ a) /\
   (talign | tsize) /\
   (exists k, 0 <= k <= 62 /\ b = 2 ^ k) /\
   calculate_layout_for GW tsize (snd (table_layout_new GW tsize talign)) b
     = Some ((len, al), off)).
Proof. unfold valid_layout, table_alloc_layout. cbn [fst table_layout_new]. reflexivity. Qed.

Lemma elements_aligned_both GW tsize talign b len al off :
  valid_layout GW tsize talign b len al off ->
  forall i, (talign | off - (i + 1) * tsize) /\
            (talign | bucket_as_ptr tsize talign (bucket_ptr tsize off i)).
Proof.
  intros HV i. split.
  - eapply elements_aligned; eassumption.
  - eapply bucket_as_ptr_aligned; eassumption.
Qed.

Lemma index_roundtrip_unbounded tsize off i n :
  0 <= tsize ->
  to_base_index tsize off (bucket_ptr tsize off i) = i /\
  next_n tsize (bucket_ptr tsize off i) n = bucket_ptr tsize off (i + n) /\
  (tsize <> 0 -> (tsize | data_end off - bucket_ptr tsize off i)).
Proof.
  intros Hts. split; [apply to_base_index_bucket_ptr; assumption|].
  split; [apply next_n_bucket_ptr|]. apply offset_from_exact.
Qed.

Lemma block_shape GW tsize talign b len al off :
  valid_layout GW tsize talign b len al off ->
  al = Z.max talign GW /\ (talign | al) /\ (GW | al) /\ (al | off) /\
  tsize * b <= off < tsize * b + al /\ len = off + b + GW /\ len + (al - 1) < 2 ^ 63.
Proof.
  intros HV.
  destruct (valid_layout_facts _ _ _ _ _ _ _ HV)
    as (_ & _ & _ & _ & _ & Emax & Hta & HGa & Hao & _ & Hlo & Hhi & Elen & Hlen).
  repeat split; assumption.
Qed.

(* concrete instances *)
Ltac solve_valid_layout a k :=
  unfold valid_layout;
  split; [auto|];
  split; [split; [discriminate|reflexivity]|];
  split; [exists a; split; [lia|reflexivity]|];
  split; [|split; [exists k; split; [lia|reflexivity]|vm_compute; reflexivity]].

Lemma example_24 : valid_layout 16 24 8 32 816 16 768.
Proof. solve_valid_layout 3 5. exists 3. reflexivity. Qed.

Lemma example_zst : valid_layout 16 0 1 4 20 16 0.
Proof. solve_valid_layout 0 2. exists 0. reflexivity. Qed.

Lemma example_overaligned : valid_layout 8 192 64 8 1552 64 1536.
Proof. solve_valid_layout 6 3. exists 3. reflexivity. Qed.

Lemma example_overaligned_zst : valid_layout 16 0 64 4 20 64 0.
Proof. solve_valid_layout 6 2. exists 0. reflexivity. Qed.

Lemma example_padding : valid_layout 16 1 1 4 36 16 16 /\ elem_range 1 16 3 = (12, 13).
Proof. split; [|reflexivity]. solve_valid_layout 0 2. exists 1. reflexivity. Qed.
