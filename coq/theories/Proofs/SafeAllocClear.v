(* SafeAllocClear.v -- allocation, clearing and destruction of the RawTable model.

   For a back-end B with WidthOK B and BackendSpec B, an element layout (tsize, talign) with
   0 <= tsize < 2^64 and talign a power of two 2^a, 0 <= a <= 62:

     A1  the static singleton is SafeWF, has capacity 0 and allocation size 0
     A7  items <= capacity, capacity = items + growth_left (no wrap)
     A4  clear_no_drop re-establishes SafeWF (from the mere geometry of the table)
     A2  fallible_with_capacity: complete case analysis of the result; every layout handed to
         the allocator is a valid Layout
     A3  free_buckets / allocation_size of an allocated table
     A5  drop_elements: never Fail, drops a prefix (in bucket order) of the occupants, once each
     A6  clear and drop_inner_table
   No axioms. *)
From Coq Require Import ZArith List Bool Lia Arith.
From HB Require Import RsPrelude Sse2 Gen Group Raw Check ArithFacts WFDefs IterFacts GroupFacts.
Import ListNotations.
Open Scope nat_scope.

(* ---------------------------------------------------------------------------------------- *)
(* list facts                                                                                 *)
(* ---------------------------------------------------------------------------------------- *)
Lemma firstn_repeat_le {A} (x : A) : forall n m, n <= m -> firstn n (repeat x m) = repeat x n.
Proof.
  induction n as [|n IH]; intros m H.
  - reflexivity.
  - destruct m as [|m]; [lia|]. cbn [repeat firstn]. rewrite IH by lia. reflexivity.
Qed.

Lemma count_p_repeat_false p (x : Z) n : p x = false -> count_p p (repeat x n) = 0.
Proof.
  intros H. unfold count_p. induction n as [|n IH].
  - reflexivity.
  - cbn [repeat filter]. rewrite H. exact IH.
Qed.

Lemma nth_repeat_any {A} (x : A) n i : nth i (repeat x n) x = x.
Proof.
  revert i. induction n as [|n IH]; intros i.
  - destruct i; reflexivity.
  - destruct i as [|i]; [reflexivity|]. cbn [repeat nth]. apply IH.
Qed.

Lemma nth_map_const_None {A C} (l : list A) i : nth i (map (fun _ => @None C) l) None = None.
Proof.
  revert i. induction l as [|a l IH]; intros i.
  - destruct i; reflexivity.
  - destruct i as [|i]; [reflexivity|]. cbn [map nth]. apply IH.
Qed.

Definition opt_list {A} (o : option A) : list A := match o with Some e => [e] | None => [] end.

Lemma flat_map_all_none {A} (sl : list (option A)) :
  (forall i, nth i sl None = None) -> flat_map opt_list sl = [].
Proof.
  induction sl as [|a sl IH]; intros H.
  - reflexivity.
  - cbn [flat_map]. pose proof (H 0) as H0. cbn [nth] in H0. subst a. cbn [opt_list app].
    apply IH. intros i. exact (H (S i)).
Qed.

Lemma flat_map_nth_seq {A C} (f : A -> list C) (sl : list A) (d : A) : forall n a,
  a + n <= length sl ->
  flat_map f (firstn n (skipn a sl)) = flat_map (fun i => f (nth i sl d)) (seq a n).
Proof.
  induction n as [|n IH]; intros a H.
  - reflexivity.
  - rewrite (skipn_nth_cons d) by lia.
    cbn [firstn seq flat_map]. rewrite IH by lia. reflexivity.
Qed.

Lemma flat_map_filter_skip {A C} (g : A -> list C) (p : A -> bool) (l : list A) :
  (forall x, In x l -> p x = false -> g x = []) -> flat_map g (filter p l) = flat_map g l.
Proof.
  induction l as [|a l IH]; intros H.
  - reflexivity.
  - cbn [filter flat_map]. destruct (p a) eqn:E.
    + cbn [flat_map]. rewrite IH; [reflexivity|]. intros x Hx. apply H. right. exact Hx.
    + rewrite (H a (or_introl eq_refl) E). cbn [app]. apply IH. intros x Hx. apply H. right. exact Hx.
Qed.

Lemma flat_map_opt_of_map_Some {A} (sl : list (option A)) : forall (idx : list nat) (es : list A),
  map Some es = map (fun i => nth i sl None) idx ->
  flat_map (fun i => opt_list (nth i sl None)) idx = es.
Proof.
  induction idx as [|i r IH]; intros es H.
  - destruct es; [reflexivity | discriminate].
  - destruct es as [|e es]; [discriminate|]. cbn [map] in H. injection H as H1 H2.
    cbn [flat_map]. rewrite <- H1. cbn [opt_list app]. f_equal. apply IH. exact H2.
Qed.

Lemma firstn_map {A C} (f : A -> C) : forall n (l : list A), firstn n (map f l) = map f (firstn n l).
Proof.
  induction n as [|n IH]; intros l.
  - reflexivity.
  - destruct l as [|a l]; [reflexivity|]. cbn [map firstn]. rewrite IH. reflexivity.
Qed.

(* slots emptied at the positions idx *)
Fixpoint clear_at {A} (sl : list (option A)) (idx : list nat) : list (option A) :=
  match idx with
  | [] => sl
  | i :: r => clear_at (upd sl i None) r
  end.

Lemma clear_at_length {A} : forall (idx : list nat) (sl : list (option A)),
  (forall i, In i idx -> i < length sl) -> length (clear_at sl idx) = length sl.
Proof.
  induction idx as [|i r IH]; intros sl H.
  - reflexivity.
  - cbn [clear_at].
    assert (Hi : i < length sl) by (apply H; left; reflexivity).
    rewrite IH; rewrite upd_length by exact Hi; [reflexivity|].
    intros j Hj. apply H. right. exact Hj.
Qed.

Lemma clear_at_nth {A} : forall (idx : list nat) (sl : list (option A)) j,
  (forall i, In i idx -> i < length sl) ->
  nth j (clear_at sl idx) None = if in_dec Nat.eq_dec j idx then None else nth j sl None.
Proof.
  induction idx as [|i r IH]; intros sl j H.
  - reflexivity.
  - cbn [clear_at].
    assert (Hi : i < length sl) by (apply H; left; reflexivity).
    rewrite IH by (intros k Hk; rewrite upd_length by exact Hi; apply H; right; exact Hk).
    rewrite nth_upd by exact Hi.
    destruct (in_dec Nat.eq_dec j r) as [Hin|Hnin];
      destruct (in_dec Nat.eq_dec j (i :: r)) as [Hin'|Hnin']; try reflexivity.
    + exfalso. apply Hnin'. right. exact Hin.
    + destruct (Nat.eqb_spec j i) as [->|Hne]; [reflexivity|].
      exfalso. destruct Hin' as [E|Hr]; [apply Hne; symmetry; exact E | apply Hnin; exact Hr].
    + destruct (Nat.eqb_spec j i) as [->|Hne]; [|reflexivity].
      exfalso. apply Hnin'. left. reflexivity.
Qed.

(* ---------------------------------------------------------------------------------------- *)
Section SafeAllocClear.
  Variable B : backend.
  Variable T : Type.
  Hypothesis HW : WidthOK B.
  Hypothesis HB : BackendSpec B.

  Variable tsize talign : Z.
  Hypothesis Hts : (0 <= tsize < 2 ^ 64)%Z.
  Hypothesis Hta : exists a : Z, (0 <= a <= 62)%Z /\ talign = (2 ^ a)%Z.

  Variable needs_drop : bool.
  Variable drop_ok : T -> bool.

  Local Notation GW := (bk_width B).

  Lemma sac_GW_pos : 0 < GW.
  Proof. destruct HW as [H|H]; rewrite H; lia. Qed.

  Lemma sac_GW_Z : (zn GW = 8 \/ zn GW = 16)%Z.
  Proof. destruct HW as [H|H]; rewrite H; [left | right]; reflexivity. Qed.

  (* -------------------------------------------------------------------------------------- *)
  (* A1: the static empty singleton                                                          *)
  (* -------------------------------------------------------------------------------------- *)
  Theorem new_table_safe : SafeWF B T (new_table B T).
  Proof. reflexivity. Qed.

  Theorem new_table_capacity : capacity T (new_table B T) = 0%Z.
  Proof. reflexivity. Qed.

  Theorem new_table_allocation_size : allocation_size B T tsize talign (new_table B T) = Ok 0%Z.
  Proof. reflexivity. Qed.

  Lemma new_table_occupants : occupants T (new_table B T) = [].
  Proof. reflexivity. Qed.

  Lemma new_table_bytes_empty i : i < nb T (new_table B T) -> byte T (new_table B T) i = EMPTY.
  Proof.
    intros H. change (nb T (new_table B T)) with 1 in H.
    unfold byte, new_table. cbn [ctrl]. apply nth_repeat_lt. pose proof sac_GW_pos. lia.
  Qed.

  (* -------------------------------------------------------------------------------------- *)
  (* A7: capacity                                                                            *)
  (* -------------------------------------------------------------------------------------- *)
  Lemma z_cap_bounds m : MaskOK m -> (0 < z_cap m < zn (S m))%Z /\ (zn (S m) <= 2 ^ 62)%Z.
  Proof.
    intros H. destruct (MaskOK_zn m H) as (k & Hk & E & Em).
    unfold z_cap. rewrite Em, E. split.
    - apply cap_lt_buckets. lia.
    - apply pow2_le_mono. lia.
  Qed.

  Lemma safe_counts t : SafeWF B T t ->
    (0 <= items t)%Z /\ (0 <= growth_left t)%Z /\ (items t + growth_left t <= z_cap (mask t))%Z /\
    (z_cap (mask t) < zn (nb T t))%Z /\ (zn (nb T t) <= 2 ^ 62)%Z.
  Proof.
    unfold SafeWF. destruct (mask t =? 0) eqn:Hm; intros H.
    - subst t. unfold nb, buckets, new_table. cbn [items growth_left mask].
      change (z_cap 0) with 0%Z. change (zn 1) with 1%Z. rewrite two_p_62. lia.
    - destruct H as (HS & _ & (Hi & Hg & Hg0 & _)).
      pose proof (z_cap_bounds (mask t) (Shape_MaskOK B T t HS)) as [Hc Hn].
      unfold nb, buckets. unfold zn in *. lia.
  Qed.

  Theorem capacity_eq t : SafeWF B T t -> capacity T t = (items t + growth_left t)%Z.
  Proof.
    intros H. destruct (safe_counts t H) as (H1 & H2 & H3 & H4 & H5).
    unfold capacity, raw_capacity, wadd. apply wrap_small.
    rewrite two_p_62 in H5. rewrite two_p_64. lia.
  Qed.

  Theorem capacity_ge_len t : SafeWF B T t -> (items t <= capacity T t)%Z.
  Proof.
    intros H. rewrite (capacity_eq t H). destruct (safe_counts t H) as (H1 & H2 & _). lia.
  Qed.

  Theorem capacity_lt_buckets t : SafeWF B T t -> (capacity T t <= z_cap (mask t) < zn (nb T t))%Z.
  Proof.
    intros H. rewrite (capacity_eq t H). destruct (safe_counts t H) as (H1 & H2 & H3 & H4 & H5). lia.
  Qed.

  (* -------------------------------------------------------------------------------------- *)
  (* a table whose control bytes are all EMPTY and whose slots are all uninitialised         *)
  (* -------------------------------------------------------------------------------------- *)
  Lemma fresh_safe m (sl : list (option T)) :
    MaskOK m -> length sl = S m -> (forall i, nth i sl None = None) ->
    let t := mkTable m (repeat EMPTY (S m + GW)) sl 0%Z (z_cap m) in
    SafeWF B T t /\ occupants T t = [] /\ (forall i, i < nb T t -> byte T t i = EMPTY).
  Proof.
    intros HM Hl Hn t.
    assert (Hnb : nb T t = S m) by reflexivity.
    assert (Hbyte : forall i, i < S m + GW -> byte T t i = EMPTY).
    { intros i Hi. unfold byte, t. cbn [ctrl]. apply nth_repeat_lt. exact Hi. }
    assert (Hreal : real_ctrl T t = repeat EMPTY (S m)).
    { unfold real_ctrl, t, buckets. cbn [ctrl mask]. apply firstn_repeat_le. lia. }
    split; [|split].
    - unfold SafeWF. cbn [mask t].
      destruct (Nat.eqb_spec m 0) as [E|_]; [exfalso; exact (MaskOK_nz m HM E)|].
      split; [|split].
      + (* Shape *)
        split; [|split; [|split]].
        * destruct HM as (k & Hk & E). exists k. split; [exact Hk|]. rewrite Hnb. exact E.
        * rewrite Hnb. cbn [ctrl t]. apply repeat_length.
        * rewrite Hnb. exact Hl.
        * cbn [ctrl t]. apply valid_repeat_EMPTY.
      + (* Mirror *)
        unfold Mirror. rewrite Hnb.
        destruct (Nat.leb_spec GW (S m)) as [Hge|Hlt].
        * intros i Hi. rewrite !Hbyte by lia. reflexivity.
        * split; intros i Hi; rewrite !Hbyte by lia; reflexivity.
      + (* Count *)
        unfold Count. rewrite Hreal. cbn [items growth_left mask t].
        rewrite !count_p_repeat_false by reflexivity.
        split; [reflexivity|]. split; [unfold zn; simpl; lia|].
        split; [pose proof (z_cap_bounds m HM); lia|].
        intros i Hi. rewrite Hnb in Hi. rewrite Hbyte by lia.
        unfold slot. cbn [slots t]. rewrite Hn. split; [intros Hc; exfalso; apply Hc; reflexivity | discriminate].
    - unfold occupants. cbn [slots t]. apply (flat_map_all_none sl Hn).
    - intros i Hi. rewrite Hnb in Hi. apply Hbyte. lia.
  Qed.

  (* -------------------------------------------------------------------------------------- *)
  (* A4: clear_no_drop                                                                       *)
  (* -------------------------------------------------------------------------------------- *)
  (* the geometry alone suffices: clear_no_drop resets every control byte and forgets every slot *)
  Definition Geometry (t : table T) : Prop :=
    MaskOK (mask t) /\ length (ctrl t) = nb T t + GW /\ length (slots t) = nb T t.

  Lemma Shape_Geometry t : Shape B T t -> Geometry t.
  Proof.
    intros HS. split; [exact (Shape_MaskOK B T t HS)|]. destruct HS as (_ & H1 & H2 & _). split; assumption.
  Qed.

  Lemma clear_no_drop_singleton : clear_no_drop T (new_table B T) = new_table B T.
  Proof. reflexivity. Qed.

  Lemma clear_no_drop_geometry t : Geometry t ->
    let t' := clear_no_drop T t in
    SafeWF B T t' /\ mask t' = mask t /\ items t' = 0%Z /\ occupants T t' = [] /\
    growth_left t' = z_cap (mask t) /\ (forall i, i < nb T t' -> byte T t' i = EMPTY).
  Proof.
    intros (HM & Hlc & Hls) t'.
    assert (E : t' = mkTable (mask t) (repeat EMPTY (S (mask t) + GW))
                             (map (fun _ => None) (slots t)) 0%Z (z_cap (mask t))).
    { unfold t', clear_no_drop, clear_no_drop_accounting, is_singleton. cbv zeta.
      destruct (Nat.eqb_spec (mask t) 0) as [E0|_]; [exfalso; exact (MaskOK_nz _ HM E0)|].
      rewrite Hlc. reflexivity. }
    destruct (fresh_safe (mask t) (map (fun _ => None) (slots t)) HM) as (H1 & H2 & H3).
    - rewrite map_length. exact Hls.
    - intros i. apply nth_map_const_None.
    - rewrite E. split; [exact H1|]. split; [reflexivity|]. split; [reflexivity|].
      split; [exact H2|]. split; [reflexivity | exact H3].
  Qed.

  Theorem clear_no_drop_safe t : SafeWF B T t ->
    let t' := clear_no_drop T t in
    SafeWF B T t' /\ mask t' = mask t /\ items t' = 0%Z /\ occupants T t' = [] /\
    growth_left t' = z_cap (mask t) /\ (forall i, i < nb T t' -> byte T t' i = EMPTY).
  Proof.
    intros H t'. unfold SafeWF in H. destruct (mask t =? 0) eqn:Hm.
    - subst t. unfold t'. rewrite clear_no_drop_singleton.
      split; [apply new_table_safe|]. split; [reflexivity|]. split; [reflexivity|].
      split; [reflexivity|]. split; [reflexivity | apply new_table_bytes_empty].
    - destruct H as (HS & _). apply clear_no_drop_geometry. apply Shape_Geometry. exact HS.
  Qed.

  Corollary clear_no_drop_singleton_growth t : SafeWF B T t -> mask t = 0 ->
    growth_left (clear_no_drop T t) = 0%Z.
  Proof.
    intros H Hm. destruct (clear_no_drop_safe t H) as (_ & _ & _ & _ & Hg & _).
    rewrite Hg, Hm. reflexivity.
  Qed.

  (* -------------------------------------------------------------------------------------- *)
  (* A2: allocation                                                                          *)
  (* -------------------------------------------------------------------------------------- *)
  Lemma lay_size_eq : lay_size B tsize talign = tsize.
  Proof. unfold lay_size. rewrite table_layout_new_spec. reflexivity. Qed.

  Lemma ctrl_align_eq : ctrl_align B tsize talign = Z.max talign (zn GW).
  Proof. unfold ctrl_align. rewrite table_layout_new_spec. reflexivity. Qed.

  Lemma ctrl_align_pow2 :
    exists j, (0 <= j <= 62)%Z /\ ctrl_align B tsize talign = (2 ^ j)%Z /\ (zn GW <= 2 ^ j)%Z.
  Proof.
    rewrite ctrl_align_eq. destruct Hta as (a & Ha & ->).
    destruct (Z.le_gt_cases (2 ^ a) (zn GW)) as [Hle|Hgt].
    - rewrite Z.max_r by assumption.
      destruct sac_GW_Z as [E|E]; rewrite E; [exists 3%Z | exists 4%Z];
        (split; [lia | split; [reflexivity | apply Z.le_refl]]).
    - rewrite Z.max_l by lia. exists a. split; [exact Ha|]. split; [reflexivity | lia].
  Qed.

  (* a Layout the allocator accepts: Layout::from_size_align's conditions *)
  Definition ValidLayout (len al : Z) : Prop :=
    (0 < al)%Z /\ is_pow2 al /\ (0 <= len <= isize_max - (al - 1))%Z.

  Theorem layout_for_valid n k len al off : (0 <= k <= 62)%Z -> zn n = (2 ^ k)%Z ->
    layout_for B tsize talign n = Some (len, al, off) ->
    al = ctrl_align B tsize talign /\ ValidLayout len al /\
    (al | off)%Z /\ (tsize * zn n <= off)%Z /\ len = (off + zn n + zn GW)%Z.
  Proof.
    intros Hk Hn. unfold layout_for.
    destruct ctrl_align_pow2 as (j & Hj & Ej & HGj).
    rewrite lay_size_eq, Ej, Hn.
    rewrite calculate_layout_for_spec by (try exact sac_GW_Z; try lia; exact Hts).
    destruct (layout_result (zn GW) tsize (2 ^ j) (2 ^ k)) as [[[l a] o]|] eqn:E; [|discriminate].
    intros H. injection H as -> -> ->.
    pose proof (pow2_pos j ltac:(lia)) as Hpj. pose proof (pow2_pos k ltac:(lia)) as Hpk.
    apply layout_result_ok in E; try (exact sac_GW_Z || lia).
    destruct E as (-> & Hd & Hlo & Hhi & -> & Hle & _).
    split; [reflexivity|]. split; [|split; [exact Hd|split; [exact Hlo | reflexivity]]].
    split; [exact Hpj|]. split; [exists j; split; [lia | reflexivity]|].
    assert (0 <= tsize * 2 ^ k)%Z by nia.
    destruct sac_GW_Z as [G|G]; rewrite G in *; lia.
  Qed.

  (* "this table owns a block with the layout computed from its number of buckets" *)
  Definition Allocated (t : table T) : Prop :=
    mask t <> 0 /\ exists len al off, layout_for B tsize talign (nb T t) = Some (len, al, off).

  Definition ctb (cap : Z) : option Z :=
    capacity_to_buckets (zn GW) cap (lay_size B tsize talign) (ctrl_align B tsize talign).

  (* the two ways a capacity request can be too large *)
  Definition overflow_cond (cap : Z) : Prop :=
    cap <> 0%Z /\
    (ctb cap = None \/ exists b, ctb cap = Some b /\ layout_for B tsize talign (nz b) = None).

  Definition alloc_fail_cond (cap len al : Z) : Prop :=
    cap <> 0%Z /\ exists b off, ctb cap = Some b /\ layout_for B tsize talign (nz b) = Some (len, al, off).

  Definition fwc_post (cap : Z) (alloc_refuses : bool) (f : fallibility)
             (r : res (option (table T) * list (event T) * try_result)) : Prop :=
    match r with
    | Ok (Some t', evs, TR_ok) =>
        SafeWF B T t' /\ items t' = 0%Z /\ occupants T t' = [] /\ (cap <= growth_left t')%Z /\
        capacity T t' = growth_left t' /\ (forall i, i < nb T t' -> byte T t' i = EMPTY) /\
        ((cap = 0%Z /\ t' = new_table B T /\ evs = []) \/
         (cap <> 0%Z /\ alloc_refuses = false /\ Allocated t' /\ ctb cap = Some (zn (nb T t')) /\
          exists len al off, layout_for B tsize talign (nb T t') = Some (len, al, off) /\
            evs = [EvAlloc len al] /\ ValidLayout len al))
    | Ok (None, [], TR_capacity_overflow) => f = Fallible /\ overflow_cond cap
    | Ok (None, [], TR_alloc_error len al) =>
        f = Fallible /\ alloc_refuses = true /\ alloc_fail_cond cap len al /\ ValidLayout len al
    | Fail PanicCapacityOverflow => f = Infallible /\ overflow_cond cap
    | Fail AbortAlloc =>
        f = Infallible /\ alloc_refuses = true /\
        exists len al, alloc_fail_cond cap len al /\ ValidLayout len al
    | _ => False
    end.

  Lemma nz_pow2 k : (0 <= k)%Z -> nz (2 ^ k) = 2 ^ Z.to_nat k /\ zn (nz (2 ^ k)) = (2 ^ k)%Z.
  Proof.
    intros Hk. unfold nz, zn. split.
    - rewrite Z2Nat.inj_pow by lia. reflexivity.
    - apply Z2Nat.id. apply Z.lt_le_incl, pow2_pos. exact Hk.
  Qed.

  Lemma fresh_alloc_eq n :
    with_ctrl T (mkTable (n - 1) (repeat POISON (n + GW)) (repeat None n) 0%Z (z_cap (n - 1)))
      (repeat EMPTY (length (ctrl (mkTable (T := T) (n - 1) (repeat POISON (n + GW)) (repeat None n) 0%Z
                                           (z_cap (n - 1))))))
    = mkTable (n - 1) (repeat EMPTY (n + GW)) (repeat None n) 0%Z (z_cap (n - 1)).
  Proof. unfold with_ctrl. cbn [mask ctrl slots items growth_left]. rewrite repeat_length. reflexivity. Qed.

  Theorem fallible_with_capacity_spec cap alloc_refuses f : (0 <= cap < 2 ^ 64)%Z ->
    fwc_post cap alloc_refuses f (fallible_with_capacity B T tsize talign cap alloc_refuses f).
  Proof.
    intros Hcap. unfold fallible_with_capacity. cbv zeta.
    destruct (Z.eqb_spec cap 0) as [->|Hnz].
    - (* the singleton, no allocation *)
      cbn [fwc_post].
      split; [apply new_table_safe|]. split; [reflexivity|]. split; [reflexivity|].
      split; [apply Z.le_refl|]. split; [reflexivity|]. split; [apply new_table_bytes_empty|].
      left. repeat split.
    - pose proof (capacity_to_buckets_spec (zn GW) cap (lay_size B tsize talign) (ctrl_align B tsize talign)
                    sac_GW_Z ltac:(lia) ltac:(rewrite lay_size_eq; lia)) as Hspec.
      fold (ctb cap) in Hspec |- *.
      destruct (ctb cap) as [b|] eqn:Ectb.
      2:{ destruct f; cbn [fwc_post]; (split; [reflexivity|]); (split; [exact Hnz|]); left; exact Ectb. }
      destruct Hspec as (_ & (k & Hk & ->) & Hcapb & _).
      destruct (nz_pow2 k ltac:(lia)) as [Hn1 Hn2].
      unfold new_uninitialized. cbv zeta.
      destruct (layout_for B tsize talign (nz (2 ^ k))) as [[[len al] off]|] eqn:El.
      2:{ destruct f; cbn [bind fwc_post]; (split; [reflexivity|]); (split; [exact Hnz|]);
          right; exists (2 ^ k)%Z; split; [exact Ectb | exact El | exact Ectb | exact El]. }
      destruct (layout_for_valid _ k len al off ltac:(lia) Hn2 El) as (_ & Hvalid & _).
      destruct alloc_refuses.
      { destruct f; cbn [bind fwc_post]; (split; [reflexivity|]); (split; [reflexivity|]).
        - split; [|exact Hvalid]. split; [exact Hnz|]. exists (2 ^ k)%Z, off. split; [exact Ectb | exact El].
        - exists len, al. split; [|exact Hvalid].
          split; [exact Hnz|]. exists (2 ^ k)%Z, off. split; [exact Ectb | exact El]. }
      (* the allocation succeeds *)
      cbn [bind]. rewrite fresh_alloc_eq.
      remember (nz (2 ^ k)) as n eqn:En.
      assert (Hk' : 2 <= Z.to_nat k <= 62) by lia.
      assert (Hn4 : 4 <= n).
      { rewrite Hn1. change 4 with (2 ^ 2). apply Nat.pow_le_mono_r; lia. }
      destruct n as [|m]; [lia|].
      rewrite Nat.sub_succ, Nat.sub_0_r.
      assert (HM : MaskOK m) by (exists (Z.to_nat k); split; [lia | exact Hn1]).
      assert (Hzm : zn m = (2 ^ k - 1)%Z) by (unfold zn in *; lia).
      destruct (fresh_safe m (repeat None (S m)) HM (repeat_length _ _) (nth_repeat_any None (S m)))
        as (Hsafe & Hocc & Hbytes).
      cbv zeta in Hsafe, Hocc, Hbytes.
      set (t' := mkTable m (repeat EMPTY (S m + GW)) (repeat None (S m)) 0%Z (z_cap m)) in *.
      cbn [fwc_post].
      split; [exact Hsafe|]. split; [reflexivity|]. split; [exact Hocc|].
      split; [unfold t'; cbn [growth_left]; unfold z_cap; rewrite Hzm; lia|].
      split; [rewrite (capacity_eq t' Hsafe); reflexivity|].
      split; [exact Hbytes|].
      right. split; [exact Hnz|]. split; [reflexivity|].
      change (nb T t') with (S m).
      split; [split; [unfold t'; cbn [mask]; lia | exists len, al, off; exact El]|].
      split; [rewrite Hn2; exact Ectb|].
      exists len, al, off. split; [exact El|]. split; [reflexivity | exact Hvalid].
  Qed.

  (* the favourable case, as an equation *)
  Corollary fallible_with_capacity_ok cap f b len al off : (0 < cap < 2 ^ 64)%Z ->
    ctb cap = Some b -> layout_for B tsize talign (nz b) = Some (len, al, off) ->
    exists t', fallible_with_capacity B T tsize talign cap false f = Ok (Some t', [EvAlloc len al], TR_ok) /\
      SafeWF B T t' /\ Allocated t' /\ nb T t' = nz b /\ items t' = 0%Z /\ occupants T t' = [] /\
      (cap <= growth_left t')%Z /\ capacity T t' = growth_left t' /\ ValidLayout len al.
  Proof.
    intros Hcap Eb El.
    pose proof (fallible_with_capacity_spec cap false f ltac:(lia)) as H.
    destruct (fallible_with_capacity B T tsize talign cap false f) as [[[[t'|] evs] tr]|e].
    - destruct tr; cbn [fwc_post] in H; try contradiction.
      destruct H as (H1 & H2 & H3 & H4 & H5 & _ & [(Hc & _)|(_ & _ & HA & Hb & (len' & al' & off' & El' & -> & Hv))]); [lia|].
      assert (Eb' : b = zn (nb T t')) by congruence. subst b.
      assert (Hnb : nz (zn (nb T t')) = nb T t') by apply Nat2Z.id.
      rewrite Hnb, El' in El. injection El as -> -> ->.
      exists t'. rewrite Hnb.
      split; [reflexivity|]. split; [exact H1|]. split; [exact HA|]. split; [reflexivity|].
      split; [exact H2|]. split; [exact H3|]. split; [exact H4|]. split; [exact H5 | exact Hv].
    - exfalso. cbn [fwc_post] in H. destruct evs; [|contradiction]. destruct tr; try contradiction.
      + destruct H as (_ & _ & [Hn | (b' & Hb' & Hl')]); [congruence|].
        rewrite Eb in Hb'. injection Hb' as <-. congruence.
      + destruct H as (_ & Hr & _). discriminate.
    - exfalso. destruct e; cbn [fwc_post] in H; try contradiction.
      + destruct H as (_ & _ & [Hn | (b' & Hb' & Hl')]); [congruence|].
        rewrite Eb in Hb'. injection Hb' as <-. congruence.
      + destruct H as (_ & Hr & _). discriminate.
  Qed.

  (* -------------------------------------------------------------------------------------- *)
  (* A3: deallocation                                                                        *)
  (* -------------------------------------------------------------------------------------- *)
  Theorem free_buckets_ok t len al off :
    mask t <> 0 -> layout_for B tsize talign (nb T t) = Some (len, al, off) ->
    free_buckets B T tsize talign t = Ok [EvFree len al] /\
    allocation_size B T tsize talign t = Ok len.
  Proof.
    intros Hm El. unfold free_buckets, allocation_size, is_singleton.
    destruct (Nat.eqb_spec (mask t) 0) as [E|_]; [contradiction|].
    change (buckets T t) with (nb T t). rewrite El. split; reflexivity.
  Qed.

  Corollary free_buckets_allocated t : Allocated t ->
    exists len al off, layout_for B tsize talign (nb T t) = Some (len, al, off) /\
      free_buckets B T tsize talign t = Ok [EvFree len al] /\
      allocation_size B T tsize talign t = Ok len.
  Proof.
    intros (Hm & len & al & off & El). exists len, al, off. split; [exact El|].
    apply (free_buckets_ok t len al off Hm El).
  Qed.

  (* the layout of a well-shaped allocated table is a valid Layout: free is called with a
     layout the allocator accepts, the same one (a function of the bucket count) as alloc *)
  Theorem allocated_layout_valid t len al off : Shape B T t ->
    layout_for B tsize talign (nb T t) = Some (len, al, off) -> ValidLayout len al.
  Proof.
    intros HS El. destruct (MaskOK_zn _ (Shape_MaskOK B T t HS)) as (k & Hk & E & _).
    destruct (layout_for_valid (nb T t) k len al off ltac:(lia) E El) as (_ & Hv & _). exact Hv.
  Qed.

  Lemma Allocated_same_mask t t' : mask t' = mask t -> Allocated t -> Allocated t'.
  Proof.
    intros Hm (Hnz & H). split; [rewrite Hm; exact Hnz|]. unfold nb, buckets in *. rewrite Hm. exact H.
  Qed.

  Corollary clear_no_drop_allocated t : SafeWF B T t -> Allocated t -> Allocated (clear_no_drop T t).
  Proof.
    intros H HA. destruct (clear_no_drop_safe t H) as (_ & Hm & _).
    apply (Allocated_same_mask t _ Hm HA).
  Qed.

  (* -------------------------------------------------------------------------------------- *)
  (* A5: drop_elements                                                                       *)
  (* -------------------------------------------------------------------------------------- *)
  Lemma safe_allocated_parts t : SafeWF B T t -> mask t <> 0 ->
    Shape B T t /\ Mirror B T t /\ Count T t.
  Proof.
    unfold SafeWF. intros H Hm. destruct (Nat.eqb_spec (mask t) 0); [contradiction | exact H].
  Qed.

  Lemma safe_items_nz_mask t : SafeWF B T t -> items t <> 0%Z -> mask t <> 0.
  Proof.
    unfold SafeWF. intros H Hi Hm. rewrite Hm in H. cbn [Nat.eqb] in H. subst t. apply Hi. reflexivity.
  Qed.

  (* the occupants are the contents of the FULL buckets, in bucket order *)
  Lemma occupants_full_list t : SafeWF B T t ->
    occupants T t = flat_map (fun i => opt_list (nth i (slots t) None)) (full_list t).
  Proof.
    intros H. unfold SafeWF in H. destruct (mask t =? 0) eqn:Hm.
    - subst t. rewrite (proj2 (items_singleton B T HW)). reflexivity.
    - destruct H as (HS & _ & (_ & _ & _ & Hsl)). destruct HS as (_ & _ & Hls & _).
      unfold occupants.
      change (fun o : option T => match o with Some e => [e] | None => [] end) with (@opt_list T).
      pose proof (flat_map_nth_seq (@opt_list T) (slots t) None (length (slots t)) 0) as E.
      cbn [skipn] in E. rewrite firstn_all in E. rewrite E by lia. rewrite Hls.
      unfold full_list. rewrite flat_map_filter_skip; [reflexivity|].
      intros x Hx Hp. apply in_seq in Hx. specialize (Hsl x ltac:(lia)). unfold slot in Hsl.
      destruct (nth x (slots t) None) as [e|]; [|reflexivity].
      exfalso. assert (Hf : is_full (byte T t x) = true) by (apply Hsl; discriminate). congruence.
  Qed.

  Lemma occupants_length t : SafeWF B T t -> items t = Z.of_nat (length (occupants T t)).
  Proof.
    intros H. rewrite (items_full_list B T HW t H). f_equal.
    rewrite (occupants_full_list t H).
    assert (Hall : forall i, In i (full_list t) -> nth i (slots t) None <> None).
    { intros i Hi. unfold SafeWF in H. destruct (mask t =? 0) eqn:Hm.
      - subst t. rewrite (proj2 (items_singleton B T HW)) in Hi. destruct Hi.
      - destruct H as (_ & _ & (_ & _ & _ & Hsl)). unfold full_list in Hi. apply filter_In in Hi.
        destruct Hi as [Hi Hf]. apply in_seq in Hi. apply (Hsl i ltac:(lia)). exact Hf. }
    induction (full_list t) as [|i r IH]; [reflexivity|].
    cbn [flat_map length]. rewrite app_length, <- IH by (intros j Hj; apply Hall; right; exact Hj).
    destruct (nth i (slots t) None) eqn:E; [reflexivity|].
    exfalso. apply (Hall i (or_introl eq_refl)). exact E.
  Qed.

  Lemma occupants_items0 t : SafeWF B T t -> items t = 0%Z -> occupants T t = [].
  Proof.
    intros H Hi. rewrite (occupants_length t H) in Hi.
    destruct (occupants T t); [reflexivity | simpl in Hi; lia].
  Qed.

  Lemma take_all_spec : forall (idx : list nat) (t : table T), mask t <> 0 -> NoDup idx ->
    (forall i, In i idx -> nth i (slots t) None <> None) ->
    exists es, take_all T t idx = Ok (es, with_slots T t (clear_at (slots t) idx)) /\
               map Some es = map (fun i => nth i (slots t) None) idx.
  Proof.
    induction idx as [|i r IH]; intros t Hm Hnd Hfull.
    - exists []. split; [|reflexivity]. cbn [take_all clear_at]. destruct t; reflexivity.
    - cbn [take_all].
      assert (Hi : nth i (slots t) None <> None) by (apply Hfull; left; reflexivity).
      assert (Hlen : i < length (slots t)).
      { destruct (Nat.lt_ge_cases i (length (slots t))) as [|Hge]; [assumption|].
        exfalso. apply Hi. apply nth_overflow. exact Hge. }
      destruct (nth i (slots t) None) as [e|] eqn:Ee; [|congruence].
      assert (Hst : slot_take T t i = Ok (e, with_slots T t (upd (slots t) i None))).
      { unfold slot_take, slot_ref, is_singleton.
        destruct (Nat.eqb_spec (mask t) 0); [contradiction|].
        rewrite (nth_error_nth' (slots t) None Hlen), Ee. reflexivity. }
      rewrite Hst. cbn [bind].
      inversion Hnd as [|? ? Hnotin Hnd']; subst.
      destruct (IH (with_slots T t (upd (slots t) i None))) as (es & Hta' & Hes).
      + exact Hm.
      + exact Hnd'.
      + intros j Hj. cbn [slots with_slots]. rewrite nth_upd by exact Hlen.
        destruct (Nat.eqb_spec j i) as [->|]; [contradiction|]. apply Hfull. right. exact Hj.
      + rewrite Hta'. cbn [bind]. exists (e :: es). split.
        * reflexivity.
        * cbn [map]. rewrite Ee. f_equal. rewrite Hes. apply map_ext_in. intros j Hj.
          cbn [slots with_slots]. rewrite nth_upd by exact Hlen.
          destruct (Nat.eqb_spec j i) as [->|]; [contradiction | reflexivity].
  Qed.

  (* drop_list runs the destructor on a prefix, each element once; it stops at the first
     destructor that panics (that element's destructor did run) *)
  Lemma drop_list_spec : forall es evs ok, drop_list T drop_ok es = (evs, ok) ->
    exists n, n <= length es /\ evs = map EvDrop (firstn n es) /\
      (ok = true -> n = length es) /\
      (ok = false -> exists e, nth_error es (n - 1) = Some e /\ drop_ok e = false /\ 0 < n).
  Proof.
    induction es as [|e r IH]; intros evs ok H; cbn [drop_list] in H.
    - injection H as <- <-. exists 0. split; [lia|]. split; [reflexivity|]. split; [reflexivity | discriminate].
    - destruct (drop_ok e) eqn:Ed.
      + destruct (drop_list T drop_ok r) as [evs' ok'] eqn:Er. injection H as <- <-.
        destruct (IH evs' ok' eq_refl) as (n & Hn & He & Ht & Hf).
        exists (S n). cbn [length firstn map]. split; [lia|]. split; [rewrite He; reflexivity|].
        split; [intros Hok; rewrite (Ht Hok); reflexivity|].
        intros Hok. destruct (Hf Hok) as (x & Hx & Hdx & Hpos). exists x.
        split; [|split; [exact Hdx | lia]].
        destruct n as [|n']; [lia|]. cbn [Nat.sub] in *. rewrite Nat.sub_0_r in *. exact Hx.
      + injection H as <- <-. exists 1. cbn [length firstn map]. split; [lia|]. split; [reflexivity|].
        split; [discriminate|]. intros _. exists e. split; [reflexivity|]. split; [exact Ed | lia].
  Qed.

  (* evs is the sequence of drops of a prefix of occ: every dropped element is an occupant,
     in bucket order, and none is dropped twice *)
  Definition drops_prefix (evs : list (event T)) (occ : list T) : Prop :=
    exists l, evs = map EvDrop l /\ l = firstn (length l) occ.

  Lemma drops_prefix_nil occ : drops_prefix [] occ.
  Proof. exists []. split; reflexivity. Qed.

  Lemma drops_prefix_firstn n occ : n <= length occ -> drops_prefix (map EvDrop (firstn n occ)) occ.
  Proof.
    intros H. exists (firstn n occ). split; [reflexivity|].
    rewrite firstn_length, Nat.min_l by exact H. reflexivity.
  Qed.

  Theorem drop_elements_spec t : SafeWF B T t ->
    exists t1 evs ok, drop_elements B T needs_drop drop_ok t = Ok (t1, evs, ok) /\
      mask t1 = mask t /\ ctrl t1 = ctrl t /\ items t1 = items t /\ growth_left t1 = growth_left t /\
      length (slots t1) = length (slots t) /\
      drops_prefix evs (occupants T t) /\
      (needs_drop = true -> ok = true -> evs = map EvDrop (occupants T t)) /\
      (ok = false -> needs_drop = true /\ items t <> 0%Z /\
                     exists l e, evs = map EvDrop (l ++ [e]) /\ drop_ok e = false) /\
      (needs_drop = true -> items t <> 0%Z -> forall i, slot T t1 i = None) /\
      (needs_drop = false \/ items t = 0%Z -> t1 = t /\ evs = [] /\ ok = true).
  Proof.
    intros H. unfold drop_elements.
    assert (Htriv : needs_drop = false \/ items t = 0%Z ->
      exists t1 evs ok, Ok (t, [], true) = Ok (A := table T * list (event T) * bool) (t1, evs, ok) /\
      mask t1 = mask t /\ ctrl t1 = ctrl t /\ items t1 = items t /\ growth_left t1 = growth_left t /\
      length (slots t1) = length (slots t) /\
      drops_prefix evs (occupants T t) /\
      (needs_drop = true -> ok = true -> evs = map EvDrop (occupants T t)) /\
      (ok = false -> needs_drop = true /\ items t <> 0%Z /\
                     exists l e, evs = map EvDrop (l ++ [e]) /\ drop_ok e = false) /\
      (needs_drop = true -> items t <> 0%Z -> forall i, slot T t1 i = None) /\
      (needs_drop = false \/ items t = 0%Z -> t1 = t /\ evs = [] /\ ok = true)).
    { intros Hc. exists t, [], true. split; [reflexivity|]. repeat (split; [reflexivity|]).
      split; [apply drops_prefix_nil|]. split; [|split; [discriminate|split]].
      - intros Hnd _. destruct Hc as [Hc|Hc]; [congruence|]. rewrite (occupants_items0 t H Hc). reflexivity.
      - intros Hnd Hi. destruct Hc as [Hc|Hc]; congruence.
      - intros _. repeat split. }
    destruct needs_drop eqn:End; cbn [andb]; [|apply Htriv; left; reflexivity].
    destruct (Z.eqb_spec (items t) 0) as [Hi0|Hi]; cbn [negb]; [apply Htriv; right; exact Hi0|].
    clear Htriv.
    pose proof (safe_items_nz_mask t H Hi) as Hm.
    destruct (safe_allocated_parts t H Hm) as (HS & _ & (_ & _ & _ & Hsl)).
    rewrite (full_buckets_indices_exact B T HW HB t H). cbn [bind].
    assert (Hfull : forall i, In i (full_list t) -> nth i (slots t) None <> None).
    { intros i Hin. unfold full_list in Hin. apply filter_In in Hin. destruct Hin as [Hin Hf].
      apply in_seq in Hin. apply (Hsl i ltac:(lia)). exact Hf. }
    assert (Hnd : NoDup (full_list t)) by (unfold full_list; apply NoDup_filter, seq_NoDup).
    destruct (take_all_spec (full_list t) t Hm Hnd Hfull) as (es & Hta' & Hes).
    rewrite Hta'. cbn [bind].
    assert (Eocc : es = occupants T t).
    { rewrite (occupants_full_list t H). symmetry. apply flat_map_opt_of_map_Some. exact Hes. }
    subst es.
    destruct (drop_list T drop_ok (occupants T t)) as [evs ok] eqn:Edl.
    destruct (drop_list_spec _ _ _ Edl) as (n & Hn & -> & Hok & Hfail).
    assert (Hbound : forall i, In i (full_list t) -> i < length (slots t)).
    { intros i Hin. destruct (Nat.lt_ge_cases i (length (slots t))) as [|Hge]; [assumption|].
      exfalso. apply (Hfull i Hin). apply nth_overflow. exact Hge. }
    eexists _, _, ok. split; [reflexivity|].
    cbn [mask ctrl items growth_left slots with_slots].
    repeat (split; [reflexivity|]).
    split; [apply clear_at_length; exact Hbound|].
    split; [apply drops_prefix_firstn; exact Hn|].
    split; [intros _ Ho; rewrite (Hok Ho), firstn_all; reflexivity|].
    split; [|split].
    - intros Ho. split; [reflexivity|]. split; [exact Hi|].
      destruct (Hfail Ho) as (e & He & Hde & Hpos).
      exists (firstn (n - 1) (occupants T t)), e. split; [|exact Hde].
      f_equal.
      assert (Hsplit : forall (l : list T) k x, nth_error l k = Some x -> firstn (S k) l = firstn k l ++ [x]).
      { induction l as [|a l IHl]; intros k x Hk; [destruct k; discriminate|].
        destruct k as [|k]; cbn in Hk.
        - injection Hk as ->. reflexivity.
        - cbn [firstn app]. rewrite <- (IHl k x Hk). reflexivity. }
      replace n with (S (n - 1)) at 1 by lia. apply Hsplit. exact He.
    - intros _ _ i. unfold slot. cbn [slots with_slots].
      rewrite clear_at_nth by exact Hbound.
      destruct (in_dec Nat.eq_dec i (full_list t)) as [_|Hnin]; [reflexivity|].
      destruct (Nat.lt_ge_cases i (nb T t)) as [Hlt|Hge].
      + specialize (Hsl i Hlt). unfold slot in Hsl.
        destruct (nth i (slots t) None) as [e|] eqn:Ee; [|reflexivity].
        exfalso. apply Hnin. unfold full_list. apply filter_In. split; [apply in_seq; lia|].
        apply Hsl. discriminate.
      + apply nth_overflow. destruct HS as (_ & _ & Hls & _). lia.
    - intros [Hc|Hc]; congruence.
  Qed.

  (* -------------------------------------------------------------------------------------- *)
  (* A6: clear, drop_inner_table                                                             *)
  (* -------------------------------------------------------------------------------------- *)
  Theorem clear_safe t : SafeWF B T t ->
    exists t' evs ok, clear B T needs_drop drop_ok t = Ok (t', evs, ok) /\
      SafeWF B T t' /\ mask t' = mask t /\ occupants T t' = [] /\ items t' = 0%Z /\
      drops_prefix evs (occupants T t) /\
      (needs_drop = true -> ok = true -> evs = map EvDrop (occupants T t)) /\
      (needs_drop = false -> evs = [] /\ ok = true) /\
      (ok = false -> exists l e, evs = map EvDrop (l ++ [e]) /\ drop_ok e = false) /\
      (items t = 0%Z -> t' = t /\ evs = [] /\ ok = true) /\
      (items t <> 0%Z -> growth_left t' = z_cap (mask t) /\ forall i, i < nb T t' -> byte T t' i = EMPTY) /\
      (Allocated t -> Allocated t').
  Proof.
    intros H. unfold clear.
    destruct (Z.eqb_spec (items t) 0) as [Hi0|Hi].
    - exists t, [], true. split; [reflexivity|]. split; [exact H|]. split; [reflexivity|].
      pose proof (occupants_items0 t H Hi0) as Ho.
      split; [exact Ho|]. split; [exact Hi0|]. split; [apply drops_prefix_nil|].
      split; [intros _ _; rewrite Ho; reflexivity|]. split; [intros _; split; reflexivity|].
      split; [discriminate|]. split; [intros _; repeat split|]. split; [contradiction | exact (fun x => x)].
    - destruct (drop_elements_spec t H) as
        (t1 & evs & ok & E & Hm1 & Hc1 & _ & _ & Hl1 & Hpre & Hall & Hfail & _ & Htriv).
      rewrite E. cbn [bind].
      pose proof (safe_items_nz_mask t H Hi) as Hm.
      destruct (safe_allocated_parts t H Hm) as (HS & _).
      assert (HG : Geometry t1).
      { destruct (Shape_Geometry t HS) as (G1 & G2 & G3).
        unfold Geometry, nb, buckets in *. rewrite Hm1, Hc1, Hl1. split; [exact G1 | split; assumption]. }
      destruct (clear_no_drop_geometry t1 HG) as (S1 & S2 & S3 & S4 & S5 & S6).
      exists (clear_no_drop T t1), evs, ok. split; [reflexivity|].
      split; [exact S1|]. split; [rewrite S2; exact Hm1|]. split; [exact S4|]. split; [exact S3|].
      split; [exact Hpre|]. split; [exact Hall|].
      split; [intros Hnd; destruct (Htriv (or_introl Hnd)) as (_ & ? & ?); split; assumption|].
      split; [intros Ho; destruct (Hfail Ho) as (_ & _ & Hx); exact Hx|].
      split; [contradiction|].
      split; [intros _; split; [rewrite S5, Hm1; reflexivity | exact S6]|].
      intros HA. apply (Allocated_same_mask t); [rewrite S2; exact Hm1 | exact HA].
  Qed.

  Theorem drop_inner_table_spec t : SafeWF B T t -> (mask t = 0 \/ Allocated t) ->
    exists evs ok, drop_inner_table B T tsize talign needs_drop drop_ok t = Ok (evs, ok) /\
      (mask t = 0 -> evs = [] /\ ok = true) /\
      (mask t <> 0 ->
         exists len al off dr,
           layout_for B tsize talign (nb T t) = Some (len, al, off) /\ ValidLayout len al /\
           drops_prefix dr (occupants T t) /\
           (needs_drop = true -> ok = true -> dr = map EvDrop (occupants T t)) /\
           (needs_drop = false \/ items t = 0%Z -> dr = [] /\ ok = true) /\
           (ok = false -> exists l e, dr = map EvDrop (l ++ [e]) /\ drop_ok e = false) /\
           evs = if ok then dr ++ [EvFree len al] else dr).
  Proof.
    intros H HA. unfold drop_inner_table, is_singleton.
    destruct (Nat.eqb_spec (mask t) 0) as [Hm0|Hm].
    - exists [], true. split; [reflexivity|]. split; [intros _; split; reflexivity | contradiction].
    - destruct HA as [|(_ & len & al & off & El)]; [contradiction|].
      destruct (safe_allocated_parts t H Hm) as (HS & _).
      destruct (drop_elements_spec t H) as
        (t1 & dr & ok & E & Hm1 & _ & _ & _ & _ & Hpre & Hall & Hfail & _ & Htriv).
      rewrite E. cbn [bind].
      assert (El1 : layout_for B tsize talign (nb T t1) = Some (len, al, off)).
      { unfold nb, buckets in *. rewrite Hm1. exact El. }
      assert (Hm1' : mask t1 <> 0) by (rewrite Hm1; exact Hm).
      destruct (free_buckets_ok t1 len al off Hm1' El1) as [Hfree _].
      assert (Hres : exists evs,
        (if ok then fr <- free_buckets B T tsize talign t1;; Ok (dr ++ fr, true) else Ok (dr, false))
        = Ok (evs, ok) /\ evs = if ok then dr ++ [EvFree len al] else dr).
      { destruct ok; [rewrite Hfree; cbn [bind]|]; eexists; split; reflexivity. }
      destruct Hres as (evs & Hres & Hevs). exists evs, ok. split; [exact Hres|].
      split; [contradiction|]. intros _. exists len, al, off, dr.
      split; [exact El|]. split; [exact (allocated_layout_valid t len al off HS El)|].
      split; [exact Hpre|]. split; [exact Hall|].
      split; [intros Hc; destruct (Htriv Hc) as (_ & ? & ?); split; assumption|].
      split; [intros Ho; destruct (Hfail Ho) as (_ & _ & Hx); exact Hx | exact Hevs].
  Qed.

  (* alloc / free pairing: a table obtained from fallible_with_capacity and then dropped emits
     exactly one EvFree, with the layout of its EvAlloc (or nothing at all for capacity 0) *)
  Corollary alloc_then_drop cap f t' evs : (0 <= cap < 2 ^ 64)%Z ->
    fallible_with_capacity B T tsize talign cap false f = Ok (Some t', evs, TR_ok) ->
    (cap = 0%Z /\ evs = [] /\
     drop_inner_table B T tsize talign needs_drop drop_ok t' = Ok ([], true)) \/
    (exists len al, ValidLayout len al /\ evs = [EvAlloc len al] /\
     drop_inner_table B T tsize talign needs_drop drop_ok t' = Ok ([EvFree len al], true)).
  Proof.
    intros Hcap E. pose proof (fallible_with_capacity_spec cap false f Hcap) as H.
    rewrite E in H. cbn [fwc_post] in H.
    destruct H as (Hs & Hi & Ho & _ & _ & _ & [(-> & -> & ->) | (Hnz & _ & HA & _ & len & al & off & El & -> & Hv)]).
    - left. split; [reflexivity|]. split; reflexivity.
    - right. exists len, al. split; [exact Hv|]. split; [reflexivity|].
      destruct (drop_inner_table_spec t' Hs (or_intror HA)) as (evs & ok & Ed & _ & Hd).
      destruct HA as (Hm & _).
      destruct (Hd Hm) as (len' & al' & off' & dr & El' & _ & _ & _ & Htriv & _ & Hevs).
      rewrite El in El'. injection El' as <- <- <-.
      destruct (Htriv (or_intror Hi)) as (-> & ->). cbn [app] in Hevs. subst evs. exact Ed.
  Qed.
End SafeAllocClear.

Print Assumptions new_table_safe.
Print Assumptions new_table_capacity.
Print Assumptions new_table_allocation_size.
Print Assumptions capacity_eq.
Print Assumptions capacity_ge_len.
Print Assumptions clear_no_drop_safe.
Print Assumptions fallible_with_capacity_spec.
Print Assumptions fallible_with_capacity_ok.
Print Assumptions free_buckets_ok.
Print Assumptions allocated_layout_valid.
Print Assumptions layout_for_valid.
Print Assumptions clear_no_drop_allocated.
Print Assumptions drop_elements_spec.
Print Assumptions clear_safe.
Print Assumptions drop_inner_table_spec.
Print Assumptions alloc_then_drop.
