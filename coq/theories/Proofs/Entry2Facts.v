(* Entry2Facts.v -- the entry code paths of Model/Entry2.v (RawTable::insert_no_grow,
   HashMap::rustc_entry, the raw entry builders) tied to the verified insert / entry path.

     E1  insert_no_grow = the fast path of RawTable::insert (same table, same slot), whenever
         RawTable::insert does not take its reserve branch
     E2  hence SafeWF / WF / contents / counters after insert_no_grow
     E4  rustc_step = [find]; Occupied: the HashMap::entry operation
                               Vacant:   OpReserve 1, then the HashMap::entry operation
     E5  rustc_step refines the reference map
     E6  raw_step (from_key) = the HashMap::entry operation; raw_get = OpGetKeyValue up to the
         is_empty shortcut
   No axioms. *)
From Coq Require Import ZArith List Bool Lia Permutation.
From HB Require Import RsPrelude Sse2 Gen Group Raw Map Check AssocSpec ArithFacts WFDefs GroupFacts ProbeFacts
  IterFacts SafeInsertErase SafeAllocClear FindFacts WFInsertRemove RawOpsSafe RawOpsWF ChurnFacts MapDefs MapStepSafe
  MapRefineBase MapStepRefine Entry2.
Import ListNotations.
Open Scope nat_scope.

(* ------------------------------------------------------------------------------------------ *)
(* E1: insert_no_grow against insert_in_slot / insert -- pure program equalities, NO invariant  *)
(* ------------------------------------------------------------------------------------------ *)
Section NoGrowEq.
  Variable B : backend.
  Variable T : Type.

  (* insert_no_grow is find_insert_slot followed by insert_in_slot: the two orders of the side
     effects (ctrl byte, growth_left, slot, items  vs  growth_left+items, ctrl byte, slot) end in
     the same state, and fail at the same primitive with the same error *)
  Lemma insert_no_grow_unfold (t : table T) hash value :
    insert_no_grow B T t hash value =
    (slot <- find_insert_slot B T t hash ;;
     t' <- insert_in_slot B T t hash slot value ;;
     Ok (t', slot)).
  Proof.
    unfold insert_no_grow, prepare_insert_slot, insert_in_slot, record_item_insert_at,
      Gen.record_item_insert_at, set_ctrl_hash.
    destruct (find_insert_slot B T t hash) as [slot|er]; cbn [bind]; [|reflexivity].
    destruct (ctrl_at T t slot) as [old|er]; cbn [bind]; [|reflexivity].
    unfold set_ctrl.
    destruct (is_singleton T t) eqn:Es; cbn [bind]; [reflexivity|].
    destruct ((slot <? length (ctrl t)) && (n_index2 (bk_width B) (mask t) slot <? length (ctrl t)));
      cbn [bind]; [|reflexivity].
    unfold buckets, with_counts, with_ctrl, slot_write, is_singleton, with_slots in *.
    cbn [mask ctrl slots items growth_left].
    destruct (slot <? S (mask t)); cbn [negb]; [|reflexivity].
    rewrite Es.
    destruct (slot <? length (slots t)); cbn [bind]; reflexivity.
  Qed.

  Variable tsize talign : Z.
  Variable needs_drop guard_fix : bool.
  Variable hasher : T -> option Z.

  Local Notation INSERT t h v ar := (Raw.insert B T tsize talign needs_drop hasher guard_fix t h v ar).

  (* what RawTable::insert returns when it is insert_no_grow that did the work *)
  Definition as_insert (r : res (table T * nat)) : res (table T * list (event T) * bool * option nat) :=
    '(t', i) <- r ;; Ok (t', [], false, Some i).

  (* growth_left <> 0: the `unlikely(...)` test of RawTable::insert is false whatever the slot *)
  Lemma insert_eq_no_grow_room (t : table T) hash value ar : growth_left t <> 0%Z ->
    INSERT t hash value ar = as_insert (insert_no_grow B T t hash value).
  Proof.
    intros Hg. rewrite insert_no_grow_unfold. unfold Raw.insert, as_insert.
    destruct (find_insert_slot B T t hash) as [slot|er]; cbn [bind]; [|reflexivity].
    destruct (ctrl_at T t slot) as [old|er] eqn:Ec; cbn [bind].
    - destruct (Z.eqb_spec (growth_left t) 0) as [C|_]; [contradiction|]. cbn [andb].
      destruct (insert_in_slot B T t hash slot value); reflexivity.
    - unfold insert_in_slot. rewrite Ec. reflexivity.
  Qed.

  (* the slot found holds a byte that is not EMPTY (a tombstone): the test is false as well,
     even with growth_left = 0 *)
  Lemma insert_eq_no_grow_tombstone (t : table T) hash value ar slot old :
    find_insert_slot B T t hash = Ok slot -> ctrl_at T t slot = Ok old ->
    tag_special_is_empty old = false ->
    INSERT t hash value ar = as_insert (insert_no_grow B T t hash value).
  Proof.
    intros Ef Ec Ho. rewrite insert_no_grow_unfold. unfold Raw.insert, as_insert.
    rewrite Ef. cbn [bind]. rewrite Ec. cbn [bind]. rewrite Ho, andb_false_r.
    destruct (insert_in_slot B T t hash slot value); reflexivity.
  Qed.
End NoGrowEq.

Section NoGrowSafe.
  Variable B : backend.
  Variable T : Type.
  Hypothesis HW : WidthOK B.
  Hypothesis HB : BackendSpec B.
  Variable tsize talign : Z.
  Hypothesis Hts : (0 <= tsize < 2 ^ 64)%Z.
  Hypothesis Hta : exists a : Z, (0 <= a <= 62)%Z /\ talign = (2 ^ a)%Z.
  Variable needs_drop : bool.
  Variable hasher : T -> option Z.

  Local Notation OWN := (TOwn B T tsize talign).
  Local Notation INSERT t h v ar := (Raw.insert B T tsize talign needs_drop hasher true t h v ar).

  (* the slot RawTable::insert / insert_no_grow will use, and the byte it holds *)
  Definition found_slot_byte (t : table T) (hash : Z) : option Z :=
    match find_insert_slot B T t hash with
    | Ok slot => match ctrl_at T t slot with Ok b => Some b | Fail _ => None end
    | Fail _ => None
    end.

  (* the precondition of insert_no_grow: room for one more EMPTY -> FULL transition, or the probe
     lands on a tombstone *)
  Definition no_grow_pre (t : table T) (hash : Z) : Prop :=
    (1 <= growth_left t)%Z \/ (mask t <> 0 /\ found_slot_byte t hash = Some DELETED).

  Lemma DELETED_not_special_empty : tag_special_is_empty DELETED = false.
  Proof. reflexivity. Qed.

  (* E1 + E2 (safety half) *)
  Theorem insert_no_grow_spec t hash value ar : SafeWF B T t -> OWN t -> no_grow_pre t hash ->
    exists t' i,
      insert_no_grow B T t hash value = Ok (t', i) /\
      INSERT t hash value ar = Ok (t', [], false, Some i) /\
      SafeWF B T t' /\ OWN t' /\ mask t' = mask t /\ i < nb T t' /\
      slot T t' i = Some value /\ byte T t' i = tag_full hash /\
      items t' = (items t + 1)%Z /\
      growth_left t' = (if is_empty (byte T t i) then growth_left t - 1 else growth_left t)%Z /\
      (0 <= growth_left t')%Z /\
      Permutation (occupants T t') (value :: occupants T t).
  Proof.
    intros Hsafe HA Hpre.
    assert (Hm : mask t <> 0).
    { destruct Hpre as [Hg|[Hm _]]; [|exact Hm]. apply (growth_pos_mask B T t Hsafe). lia. }
    destruct (SafeWF_alloc B T t Hsafe Hm) as (HS & HM & HC).
    destruct (find_insert_slot_terminates B T HW HB t HS HM HC hash) as (s & Efis & Hs & Hsp).
    assert (Hlen : s < length (ctrl t)) by (destruct HS as (_ & Hl & _); lia).
    pose proof (ctrl_at_byte T t s Hlen) as Ectrl.
    assert (Hroom : byte T t s = EMPTY -> (0 < growth_left t)%Z).
    { intros Eb. destruct Hpre as [Hg|[_ Hd]]; [lia|].
      unfold found_slot_byte in Hd. rewrite Efis, Ectrl, Eb in Hd. discriminate Hd. }
    destruct (insert_in_slot_safe B T HW t s hash value Hsafe Hm Hs Hsp Hroom)
      as (t2 & Eins & Hs2 & Em2 & Eit2 & Ebs & Ess & _ & Egl & Hperm2).
    assert (Eng : insert_no_grow B T t hash value = Ok (t2, s)).
    { rewrite insert_no_grow_unfold, Efis. cbn [bind]. rewrite Eins. reflexivity. }
    exists t2, s. split; [exact Eng|]. split.
    { destruct Hpre as [Hg|[_ Hd]].
      - rewrite (insert_eq_no_grow_room B T tsize talign needs_drop true hasher t hash value ar) by lia.
        rewrite Eng. reflexivity.
      - unfold found_slot_byte in Hd. rewrite Efis, Ectrl in Hd. injection Hd as Hd.
        rewrite (insert_eq_no_grow_tombstone B T tsize talign needs_drop true hasher t hash value ar s
                   (byte T t s) Efis Ectrl) by (rewrite Hd; reflexivity).
        rewrite Eng. reflexivity. }
    split; [exact Hs2|]. split; [exact (TOwn_same_mask B T tsize talign t t2 Em2 HA)|].
    split; [exact Em2|]. split; [unfold nb, buckets in *; rewrite Em2; exact Hs|].
    split; [exact Ess|]. split; [exact Ebs|]. split; [exact Eit2|]. split; [exact Egl|].
    split; [exact (proj1 (SafeWF_growth_bound B T t2 Hs2))|exact Hperm2].
  Qed.
End NoGrowSafe.

(* E2, the WF half: with a (possibly partial) hash function h on elements, h value = Some hash *)
Section NoGrowWF.
  Variable B : backend.
  Variable T : Type.
  Hypothesis HW : WidthOK B.
  Hypothesis HB : BackendSpec B.
  Variable h : T -> option Z.

  Theorem insert_no_grow_WF t hash value t' i :
    WF B T h t -> no_grow_pre B T t hash -> h value = Some hash ->
    insert_no_grow B T t hash value = Ok (t', i) -> WF B T h t'.
  Proof.
    intros HWF Hpre Hv E. pose proof HWF as (Hsafe & _).
    assert (Hm : mask t <> 0).
    { destruct Hpre as [Hg|[Hm _]]; [|exact Hm]. apply (growth_pos_mask B T t Hsafe). lia. }
    rewrite insert_no_grow_unfold in E.
    destruct (find_insert_slot B T t hash) as [s|er] eqn:Efis; cbn [bind] in E; [|discriminate E].
    destruct (SafeWF_alloc B T t Hsafe Hm) as (HS & HM & HC).
    destruct (find_insert_slot_terminates B T HW HB t HS HM HC hash) as (s' & Efis' & Hs & Hsp).
    rewrite Efis in Efis'. injection Efis' as <-.
    assert (Hlen : s < length (ctrl t)) by (destruct HS as (_ & Hl & _); lia).
    pose proof (ctrl_at_byte T t s Hlen) as Ectrl.
    assert (Hroom : byte T t s = EMPTY -> (0 < growth_left t)%Z).
    { intros Eb. destruct Hpre as [Hg|[_ Hd]]; [lia|].
      unfold found_slot_byte in Hd. rewrite Efis, Ectrl, Eb in Hd. discriminate Hd. }
    destruct (insert_in_slot_WF_fis B T HW HB h t s hash value HWF Hm Efis Hv Hroom)
      as (t2 & Eins & HWF2 & _).
    rewrite Eins in E. cbn [bind] in E. injection E as <- _. exact HWF2.
  Qed.
End NoGrowWF.
