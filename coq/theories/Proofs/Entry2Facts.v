(* Entry2Facts.v -- the entry code paths of Model/Entry2.v (RawTable::insert_no_grow,
   HashMap::rustc_entry, the raw entry builders) tied to the verified insert / entry path.

     E1  insert_no_grow = the fast path of RawTable::insert (same table, same slot), whenever
         RawTable::insert does not take its reserve branch
     E2  hence SafeWF / WF / contents / counters after insert_no_grow
     E4  rustc_step = [find]; Occupied: the HashMap::entry operation
                               Vacant:   OpReserve 1, then the HashMap::entry operation
     E5  rustc_step refines the reference map
     E6  raw_step (from_key) = the HashMap::entry operation; raw_get = OpGetKeyValue up to the
         is_empty shortcut (raw_get_eq needs `items t = 0 -> hash_of k <> None`:
         raw_get_counterexample)
     rustc_step_full_table_example: E4 on a concrete full table (growth_left = 0), both backends
   No axioms. *)
From Coq Require Import ZArith List Bool Lia Permutation.
From HB Require Import RsPrelude Sse2 Gen Group Raw Map Check AssocSpec ArithFacts WFDefs GroupFacts ProbeFacts
  IterFacts SafeInsertErase SafeAllocClear FindFacts ResizeFacts WFInsertRemove RawOpsSafe RawOpsWF ChurnFacts MapDefs
  MapStepSafe AssocFacts MapRefineBase MapStepRefine Entry2.
Import ListNotations.
Open Scope nat_scope.

(* ------------------------------------------------------------------------------------------ *)
(* E1: insert_no_grow against insert_in_slot / insert -- pure program equalities, NO invariant  *)
(* ------------------------------------------------------------------------------------------ *)
Section NoGrowEq.
  Variable B : backend.
  Variable T : Type.

  (* insert_no_grow is find_insert_slot followed by insert_in_slot: the two orders of the side
     effects (ctrl byte, growth_left, slot, items  vs  growth_left+items, ctrl byte, slot) end in
     the same state, and fail at the same primitive with the same error *)
  Lemma insert_no_grow_unfold (t : table T) hash value :
    insert_no_grow B T t hash value =
    (slot <- find_insert_slot B T t hash ;;
     t' <- insert_in_slot B T t hash slot value ;;
     Ok (t', slot)).
  Proof.
    unfold insert_no_grow, prepare_insert_slot, insert_in_slot, record_item_insert_at,
      Gen.record_item_insert_at, set_ctrl_hash.
    destruct (find_insert_slot B T t hash) as [slot|er]; cbn [bind]; [|reflexivity].
    destruct (ctrl_at T t slot) as [old|er]; cbn [bind]; [|reflexivity].
    unfold set_ctrl.
    destruct (is_singleton T t) eqn:Es; cbn [bind]; [reflexivity|].
    destruct ((slot <? length (ctrl t)) && (n_index2 (bk_width B) (mask t) slot <? length (ctrl t)));
      cbn [bind]; [|reflexivity].
    unfold buckets, with_counts, with_ctrl, slot_write, is_singleton, with_slots in *.
    cbn [mask ctrl slots items growth_left].
    destruct (slot <? S (mask t)); cbn [negb]; [|reflexivity].
    rewrite Es.
    destruct (slot <? length (slots t)); cbn [bind]; reflexivity.
  Qed.

  Variable tsize talign : Z.
  Variable needs_drop guard_fix : bool.
  Variable hasher : T -> option Z.

  Local Notation INSERT t h v ar := (Raw.insert B T tsize talign needs_drop hasher guard_fix t h v ar).

  (* what RawTable::insert returns when it is insert_no_grow that did the work *)
  Definition as_insert (r : res (table T * nat)) : res (table T * list (event T) * bool * option nat) :=
    '(t', i) <- r ;; Ok (t', [], false, Some i).

  (* growth_left <> 0: the `unlikely(...)` test of RawTable::insert is false whatever the slot *)
  Lemma insert_eq_no_grow_room (t : table T) hash value ar : growth_left t <> 0%Z ->
    INSERT t hash value ar = as_insert (insert_no_grow B T t hash value).
  Proof.
    intros Hg. rewrite insert_no_grow_unfold. unfold Raw.insert, as_insert.
    destruct (find_insert_slot B T t hash) as [slot|er]; cbn [bind]; [|reflexivity].
    destruct (ctrl_at T t slot) as [old|er] eqn:Ec; cbn [bind].
    - destruct (Z.eqb_spec (growth_left t) 0) as [C|_]; [contradiction|]. cbn [andb].
      destruct (insert_in_slot B T t hash slot value); reflexivity.
    - unfold insert_in_slot. rewrite Ec. reflexivity.
  Qed.

  (* the slot found holds a byte that is not EMPTY (a tombstone): the test is false as well,
     even with growth_left = 0 *)
  Lemma insert_eq_no_grow_tombstone (t : table T) hash value ar slot old :
    find_insert_slot B T t hash = Ok slot -> ctrl_at T t slot = Ok old ->
    tag_special_is_empty old = false ->
    INSERT t hash value ar = as_insert (insert_no_grow B T t hash value).
  Proof.
    intros Ef Ec Ho. rewrite insert_no_grow_unfold. unfold Raw.insert, as_insert.
    rewrite Ef. cbn [bind]. rewrite Ec. cbn [bind]. rewrite Ho, andb_false_r.
    destruct (insert_in_slot B T t hash slot value); reflexivity.
  Qed.
End NoGrowEq.

Section NoGrowSafe.
  Variable B : backend.
  Variable T : Type.
  Hypothesis HW : WidthOK B.
  Hypothesis HB : BackendSpec B.
  Variable tsize talign : Z.
  Hypothesis Hts : (0 <= tsize < 2 ^ 64)%Z.
  Hypothesis Hta : exists a : Z, (0 <= a <= 62)%Z /\ talign = (2 ^ a)%Z.
  Variable needs_drop : bool.
  Variable hasher : T -> option Z.

  Local Notation OWN := (TOwn B T tsize talign).
  Local Notation INSERT t h v ar := (Raw.insert B T tsize talign needs_drop hasher true t h v ar).

  (* the slot RawTable::insert / insert_no_grow will use, and the byte it holds *)
  Definition found_slot_byte (t : table T) (hash : Z) : option Z :=
    match find_insert_slot B T t hash with
    | Ok slot => match ctrl_at T t slot with Ok b => Some b | Fail _ => None end
    | Fail _ => None
    end.

  (* the precondition of insert_no_grow: room for one more EMPTY -> FULL transition, or the probe
     lands on a tombstone *)
  Definition no_grow_pre (t : table T) (hash : Z) : Prop :=
    (1 <= growth_left t)%Z \/ (mask t <> 0 /\ found_slot_byte t hash = Some DELETED).

  Lemma DELETED_not_special_empty : tag_special_is_empty DELETED = false.
  Proof. reflexivity. Qed.

  (* E1 + E2 (safety half) *)
  Theorem insert_no_grow_spec t hash value ar : SafeWF B T t -> OWN t -> no_grow_pre t hash ->
    exists t' i,
      insert_no_grow B T t hash value = Ok (t', i) /\
      INSERT t hash value ar = Ok (t', [], false, Some i) /\
      SafeWF B T t' /\ OWN t' /\ mask t' = mask t /\ i < nb T t' /\
      slot T t' i = Some value /\ byte T t' i = tag_full hash /\
      items t' = (items t + 1)%Z /\
      growth_left t' = (if is_empty (byte T t i) then growth_left t - 1 else growth_left t)%Z /\
      (0 <= growth_left t')%Z /\
      Permutation (occupants T t') (value :: occupants T t).
  Proof.
    intros Hsafe HA Hpre.
    assert (Hm : mask t <> 0).
    { destruct Hpre as [Hg|[Hm _]]; [|exact Hm]. apply (growth_pos_mask B T t Hsafe). lia. }
    destruct (SafeWF_alloc B T t Hsafe Hm) as (HS & HM & HC).
    destruct (find_insert_slot_terminates B T HW HB t HS HM HC hash) as (s & Efis & Hs & Hsp).
    assert (Hlen : s < length (ctrl t)) by (destruct HS as (_ & Hl & _); lia).
    pose proof (ctrl_at_byte T t s Hlen) as Ectrl.
    assert (Hroom : byte T t s = EMPTY -> (0 < growth_left t)%Z).
    { intros Eb. destruct Hpre as [Hg|[_ Hd]]; [lia|].
      unfold found_slot_byte in Hd. rewrite Efis, Ectrl, Eb in Hd. discriminate Hd. }
    destruct (insert_in_slot_safe B T HW t s hash value Hsafe Hm Hs Hsp Hroom)
      as (t2 & Eins & Hs2 & Em2 & Eit2 & Ebs & Ess & _ & Egl & Hperm2).
    assert (Eng : insert_no_grow B T t hash value = Ok (t2, s)).
    { rewrite insert_no_grow_unfold, Efis. cbn [bind]. rewrite Eins. reflexivity. }
    exists t2, s. split; [exact Eng|]. split.
    { destruct Hpre as [Hg|[_ Hd]].
      - rewrite (insert_eq_no_grow_room B T tsize talign needs_drop true hasher t hash value ar) by lia.
        rewrite Eng. reflexivity.
      - unfold found_slot_byte in Hd. rewrite Efis, Ectrl in Hd. injection Hd as Hd.
        rewrite (insert_eq_no_grow_tombstone B T tsize talign needs_drop true hasher t hash value ar s
                   (byte T t s) Efis Ectrl) by (rewrite Hd; reflexivity).
        rewrite Eng. reflexivity. }
    split; [exact Hs2|]. split; [exact (TOwn_same_mask B T tsize talign t t2 Em2 HA)|].
    split; [exact Em2|]. split; [unfold nb, buckets in *; rewrite Em2; exact Hs|].
    split; [exact Ess|]. split; [exact Ebs|]. split; [exact Eit2|]. split; [exact Egl|].
    split; [exact (proj1 (SafeWF_growth_bound B T t2 Hs2))|exact Hperm2].
  Qed.
End NoGrowSafe.

(* E2, the WF half: with a (possibly partial) hash function h on elements, h value = Some hash *)
Section NoGrowWF.
  Variable B : backend.
  Variable T : Type.
  Hypothesis HW : WidthOK B.
  Hypothesis HB : BackendSpec B.
  Variable h : T -> option Z.

  Theorem insert_no_grow_WF t hash value t' i :
    WF B T h t -> no_grow_pre B T t hash -> h value = Some hash ->
    insert_no_grow B T t hash value = Ok (t', i) -> WF B T h t'.
  Proof.
    intros HWF Hpre Hv E. pose proof HWF as (Hsafe & _).
    assert (Hm : mask t <> 0).
    { destruct Hpre as [Hg|[Hm _]]; [|exact Hm]. apply (growth_pos_mask B T t Hsafe). lia. }
    rewrite insert_no_grow_unfold in E.
    destruct (find_insert_slot B T t hash) as [s|er] eqn:Efis; cbn [bind] in E; [|discriminate E].
    destruct (SafeWF_alloc B T t Hsafe Hm) as (HS & HM & HC).
    destruct (find_insert_slot_terminates B T HW HB t HS HM HC hash) as (s' & Efis' & Hs & Hsp).
    rewrite Efis in Efis'. injection Efis' as <-.
    assert (Hlen : s < length (ctrl t)) by (destruct HS as (_ & Hl & _); lia).
    pose proof (ctrl_at_byte T t s Hlen) as Ectrl.
    assert (Hroom : byte T t s = EMPTY -> (0 < growth_left t)%Z).
    { intros Eb. destruct Hpre as [Hg|[_ Hd]]; [lia|].
      unfold found_slot_byte in Hd. rewrite Efis, Ectrl, Eb in Hd. discriminate Hd. }
    destruct (insert_in_slot_WF_fis B T HW HB h t s hash value HWF Hm Efis Hv Hroom)
      as (t2 & Eins & HWF2 & _).
    rewrite Eins in E. cbn [bind] in E. injection E as <- _. exact HWF2.
  Qed.
End NoGrowWF.

(* ------------------------------------------------------------------------------------------ *)
(* E4: rustc_step against map_step                                                              *)
(* ------------------------------------------------------------------------------------------ *)
(* `OpReserve 1`, then `op` in the state the reserve left, the event lists concatenated; an
   unwinding reserve ends the composition with its own result *)
Definition reserve_then (B : backend) (tsize talign : Z) (needs_drop guard_fix : bool)
           (hash_of : Z -> option Z) (alloc_refuses : bool) (t : table kv) (op : map_op) : res Map.result :=
  '(t1, o1, evs1) <- map_step B tsize talign needs_drop guard_fix hash_of alloc_refuses t (OpReserve 1) ;;
  if is_unwind o1 then Ok (t1, o1, evs1) else
  '(t2, o2, evs2) <- map_step B tsize talign needs_drop guard_fix hash_of alloc_refuses t1 op ;;
  Ok (t2, o2, evs1 ++ evs2).

(* the Occupied arm, and the arms where nothing is found because the hasher panicked or a checked
   primitive failed: a pure program equality, NO invariant, any guard_fix *)
Section RustcOccupied.
  Variable B : backend.
  Variable tsize talign : Z.
  Variable needs_drop guard_fix : bool.
  Variable hash_of : Z -> option Z.
  Variable alloc_refuses : bool.

  Local Notation STEP := (map_step B tsize talign needs_drop guard_fix hash_of alloc_refuses).
  Local Notation RUSTC := (rustc_step B tsize talign needs_drop guard_fix hash_of alloc_refuses).

  Lemma rustc_step_not_vacant_eq (t : table kv) k stamp a :
    (forall hv, hash_of k = Some hv -> find B kv t hv (eq_key k) <> Ok None) ->
    RUSTC t k stamp a = STEP t (entry_op_of k stamp a).
  Proof.
    intros Hnv. unfold rustc_step.
    destruct a; cbn [entry_op_of map_step]; unfold m_entry, with_hash;
      (destruct (hash_of k) as [hv|] eqn:Hh; [|reflexivity]);
      (destruct (find B kv t hv (eq_key k)) as [[i|]|er] eqn:Ef; cbn [bind];
       [|exfalso; exact (Hnv hv eq_refl Ef)|reflexivity]);
      (destruct (slot_ref kv t i) as [e|er]; cbn [bind rustc_occupied]; reflexivity).
  Qed.

  Lemma rustc_step_occupied_eq (t : table kv) k stamp a hv i :
    hash_of k = Some hv -> find B kv t hv (eq_key k) = Ok (Some i) ->
    RUSTC t k stamp a = STEP t (entry_op_of k stamp a).
  Proof.
    intros Hh Ef. apply rustc_step_not_vacant_eq. intros hv' Hh'. rewrite Hh in Hh'. injection Hh' as <-.
    rewrite Ef. discriminate.
  Qed.
End RustcOccupied.

Section RustcEq.
  Variable B : backend.
  Hypothesis HW : WidthOK B.
  Hypothesis HB : BackendSpec B.
  Variable tsize talign : Z.
  Hypothesis HL : LayoutOK tsize talign.
  Variable needs_drop : bool.
  Variable hash_of : Z -> option Z.
  Hypothesis Htot : TotalHash hash_of.
  Variable alloc_refuses : bool.

  Let Hts : (0 <= tsize < 2 ^ 64)%Z := proj1 HL.
  Let Hta : exists a : Z, (0 <= a <= 62)%Z /\ talign = (2 ^ a)%Z := proj2 HL.

  Local Notation h := (hasher hash_of).
  Local Notation OWN := (TOwn B kv tsize talign).
  Local Notation INV := (Inv B tsize talign hash_of).
  Local Notation STEP := (map_step B tsize talign needs_drop true hash_of alloc_refuses).
  Local Notation RUSTC := (rustc_step B tsize talign needs_drop true hash_of alloc_refuses).
  Local Notation THEN := (reserve_then B tsize talign needs_drop true hash_of alloc_refuses).
  Local Notation keyP k := (fun e : kv => (k_id e =? k)%Z).

  (* a probe that finds nothing: no occupant has the key (WF: an occupant is never missed) *)
  Lemma find_None_no_occupant t k hv : WF B kv h t -> hash_of k = Some hv ->
    find B kv t hv (eq_key k) = Ok None ->
    forall e, In e (occupants kv t) -> (k_id e =? k)%Z = false.
  Proof.
    intros HWF Hh Ef e Hin. pose proof HWF as (Hs & _).
    destruct (Nat.eq_dec (mask t) 0) as [Hm|Hm].
    - rewrite (safe_singleton B kv t Hs Hm), new_table_occupants in Hin. destruct Hin.
    - destruct (k_id e =? k)%Z eqn:Ek; [exfalso|reflexivity].
      apply occupants_In in Hin. destruct Hin as (i & Hi & He).
      rewrite (SafeWF_slots_length B kv t Hs) in Hi.
      change (eq_key k) with (pure_eq (keyP k)) in Ef.
      destruct (find_complete B kv HW HB t Hm (keyP k) hv h i e HWF Hi He (keyP_hash hash_of k hv Hh e Ek) Ek)
        as (i' & e' & C & _). rewrite Ef in C. discriminate C.
  Qed.

  (* ... and conversely (SafeWF is enough) *)
  Lemma no_occupant_find_None t k hv : SafeWF B kv t ->
    (forall e, In e (occupants kv t) -> (k_id e =? k)%Z = false) ->
    find B kv t hv (eq_key k) = Ok None.
  Proof.
    intros Hs Hno. destruct (Nat.eq_dec (mask t) 0) as [Hm|Hm].
    - rewrite (safe_singleton B kv t Hs Hm). apply (find_new_table B HW HB).
    - change (eq_key k) with (pure_eq (keyP k)).
      apply (find_absent B kv HW HB t Hm (keyP k) hv Hs). intros i e He. apply Hno.
      apply occupants_In. exists i. split; [exact (nth_Some_lt (slots t) i e He)|exact He].
  Qed.

  (* reserve keeps the occupants, hence the answer "absent" *)
  Lemma find_None_after_reserve t k hv n t1 evs1 tr1 unw1 : WF B kv h t -> OWN t -> (0 <= n < 2 ^ 64)%Z ->
    hash_of k = Some hv -> find B kv t hv (eq_key k) = Ok None ->
    reserve B kv tsize talign needs_drop h true t n alloc_refuses = Ok (t1, evs1, tr1, unw1) ->
    find B kv t1 hv (eq_key k) = Ok None.
  Proof.
    intros HWF HA Hn Hh Ef Er.
    destruct (reserve_WF B kv HW HB tsize talign Hts Hta needs_drop h (h_total hash_of Htot) t n alloc_refuses
                t1 evs1 tr1 unw1 HWF HA Hn Er) as (_ & _ & (Hs1 & _) & _ & P & _).
    apply (no_occupant_find_None t1 k hv Hs1). intros e Hin.
    exact (find_None_no_occupant t k hv HWF Hh Ef e (Permutation_in e P Hin)).
  Qed.

  (* the Vacant arm *)
  Lemma rustc_step_vacant_eq t k stamp a hv : WF B kv h t -> OWN t ->
    hash_of k = Some hv -> find B kv t hv (eq_key k) = Ok None ->
    RUSTC t k stamp a = THEN t (entry_op_of k stamp a).
  Proof.
    intros HWF HA Hh Ef. unfold rustc_step, reserve_then, with_hash. rewrite Hh, Ef. cbn [bind map_step].
    assert (H1 : (0 <= 1 < 2 ^ 64)%Z) by (split; [lia|reflexivity]).
    destruct (reserve B kv tsize talign needs_drop h true t 1 alloc_refuses)
      as [[[[t1 evs1] tr1] unw1]|er] eqn:Er; cbn [bind]; [|reflexivity].
    pose proof (find_None_after_reserve t k hv 1%Z t1 evs1 tr1 unw1 HWF HA H1 Hh Ef Er) as Ef1.
    destruct (reserve_WF B kv HW HB tsize talign Hts Hta needs_drop h (h_total hash_of Htot) t 1%Z alloc_refuses
                t1 evs1 tr1 unw1 HWF HA H1 Er) as (-> & -> & (Hs1 & _) & HA1 & _ & _ & Hg & _).
    cbn [tr_out]. cbn [bind is_unwind].
    destruct a as [v|v| |]; cbn [entry_op_of map_step rustc_vacant]; unfold m_entry, with_hash;
      rewrite Hh, Ef1; cbn [bind].
    - unfold vacant_insert.
      destruct (insert_no_grow_spec B kv HW HB tsize talign needs_drop h t1 hv (mkKV k stamp v) alloc_refuses
                  Hs1 HA1 (or_introl Hg)) as (t2 & i & Eng & Eins & _).
      rewrite Eng, Eins. cbn [bind]. rewrite app_nil_r. reflexivity.
    - unfold vacant_insert.
      destruct (insert_no_grow_spec B kv HW HB tsize talign needs_drop h t1 hv (mkKV k stamp v) alloc_refuses
                  Hs1 HA1 (or_introl Hg)) as (t2 & i & Eng & Eins & _).
      rewrite Eng, Eins. cbn [bind]. rewrite app_nil_r. reflexivity.
    - rewrite app_nil_r. reflexivity.
    - rewrite app_nil_r. reflexivity.
  Qed.

  (* E4 *)
  Theorem rustc_step_eq t k stamp a hv : WF B kv h t -> OWN t -> hash_of k = Some hv ->
    RUSTC t k stamp a =
    match find B kv t hv (eq_key k) with
    | Ok (Some _) => STEP t (entry_op_of k stamp a)
    | Ok None => THEN t (entry_op_of k stamp a)
    | Fail er => Fail er
    end.
  Proof.
    intros HWF HA Hh. destruct (find B kv t hv (eq_key k)) as [[i|]|er] eqn:Ef.
    - exact (rustc_step_occupied_eq B tsize talign needs_drop true hash_of alloc_refuses t k stamp a hv i Hh Ef).
    - exact (rustc_step_vacant_eq t k stamp a hv HWF HA Hh Ef).
    - unfold rustc_step, with_hash. rewrite Hh, Ef. reflexivity.
  Qed.
End RustcEq.

(* the Vacant arm when the action inserts nothing (drop the entry / remove_entry on a Vacant entry):
   the reserve(1) of rustc_entry has happened all the same -- a pure program equality *)
Section RustcVacantNoInsert.
  Variable B : backend.
  Variable tsize talign : Z.
  Variable needs_drop guard_fix : bool.
  Variable hash_of : Z -> option Z.
  Variable alloc_refuses : bool.

  Local Notation STEP := (map_step B tsize talign needs_drop guard_fix hash_of alloc_refuses).
  Local Notation RUSTC := (rustc_step B tsize talign needs_drop guard_fix hash_of alloc_refuses).

  Lemma rustc_step_vacant_noinsert_eq (t : table kv) k stamp a hv :
    hash_of k = Some hv -> find B kv t hv (eq_key k) = Ok None ->
    match a with ActDrop | ActRemoveEntry => True | _ => False end ->
    RUSTC t k stamp a =
    ('(t1, o1, evs1) <- STEP t (OpReserve 1) ;;
     if is_unwind o1 then Ok (t1, o1, evs1)
     else Ok (t1, match a with ActDrop => OutBool false | _ => OutNone end, evs1)).
  Proof.
    intros Hh Ef Ha. unfold rustc_step, with_hash. rewrite Hh, Ef. cbn [bind map_step].
    destruct (reserve B kv tsize talign needs_drop (hasher hash_of) guard_fix t 1 alloc_refuses)
      as [[[[t1 evs1] tr1] unw1]|er]; cbn [bind]; [|reflexivity].
    cbn [tr_out]. destruct unw1; cbn [bind is_unwind unwind]; [reflexivity|].
    destruct a; try contradiction; reflexivity.
  Qed.
End RustcVacantNoInsert.

(* ------------------------------------------------------------------------------------------ *)
(* E5: rustc_step refines the reference map                                                     *)
(* ------------------------------------------------------------------------------------------ *)
Section RustcRefines.
  Variable B : backend.
  Hypothesis HW : WidthOK B.
  Hypothesis HB : BackendSpec B.
  Variable tsize talign : Z.
  Hypothesis HL : LayoutOK tsize talign.
  Variable needs_drop : bool.
  Variable hash_of : Z -> option Z.
  Hypothesis Htot : TotalHash hash_of.
  Variable alloc_refuses : bool.

  Local Notation h := (hasher hash_of).
  Local Notation INV := (Inv B tsize talign hash_of).
  Local Notation STEP := (map_step B tsize talign needs_drop true hash_of alloc_refuses).
  Local Notation RUSTC := (rustc_step B tsize talign needs_drop true hash_of alloc_refuses).

  Lemma entry_op_args_ok k stamp a : op_args_ok (entry_op_of k stamp a).
  Proof. destruct a; exact I. Qed.

  Lemma entry_op_pre s k stamp a : op_pre s (entry_op_of k stamp a).
  Proof. destruct a; exact I. Qed.

  (* the reference accepts `OpReserve n` only with OutUnit, and leaves the contents alone *)
  Lemma spec_reserve_same s n o s' : spec_accepts s (OpReserve n) o = Some s' -> s' = s.
  Proof.
    cbn [spec_accepts]. unfold expect. destruct (out_eqb o OutUnit); [|discriminate].
    intros E. injection E as <-. reflexivity.
  Qed.

  Theorem rustc_step_refines_inv t s k stamp a t' o evs : INV t s ->
    RUSTC t k stamp a = Ok (t', o, evs) ->
    is_unwind o = false /\ exists s', spec_accepts s (entry_op_of k stamp a) o = Some s' /\ INV t' s'.
  Proof.
    intros HI E. pose proof HI as (HWF & HA & _). destruct (Htot k) as (hv & Hh).
    rewrite (rustc_step_eq B HW HB tsize talign HL needs_drop hash_of Htot alloc_refuses t k stamp a hv HWF HA Hh) in E.
    destruct (find B kv t hv (eq_key k)) as [[i|]|er] eqn:Ef; [| |discriminate E].
    - (* Occupied: the HashMap::entry operation itself *)
      exact (map_step_refines_inv B HW HB tsize talign HL needs_drop hash_of Htot alloc_refuses t s
               (entry_op_of k stamp a) t' o evs (entry_op_args_ok k stamp a) (entry_op_pre s k stamp a) HI E).
    - (* Vacant: OpReserve 1 (accepted, contents unchanged), then the HashMap::entry operation *)
      unfold reserve_then in E.
      destruct (STEP t (OpReserve 1)) as [[[t1 o1] evs1]|er] eqn:E1; cbn [bind] in E; [|discriminate E].
      assert (H1 : (0 <= 1 < 2 ^ 64)%Z) by (split; [lia|reflexivity]).
      destruct (ref_reserve B HW HB tsize talign HL needs_drop hash_of Htot alloc_refuses t s 1%Z t1 o1 evs1 HI H1 E1)
        as (Hu1 & s1 & Es1 & HI1).
      rewrite Hu1 in E. rewrite (spec_reserve_same s 1%Z o1 s1 Es1) in HI1.
      destruct (STEP t1 (entry_op_of k stamp a)) as [[[t2 o2] evs2]|er] eqn:E2; cbn [bind] in E; [|discriminate E].
      injection E as <- <- <-.
      exact (map_step_refines_inv B HW HB tsize talign HL needs_drop hash_of Htot alloc_refuses t1 s
               (entry_op_of k stamp a) t2 o2 evs2 (entry_op_args_ok k stamp a) (entry_op_pre s k stamp a) HI1 E2).
  Qed.
End RustcRefines.

(* E5 in closed form *)
Theorem rustc_step_refines :
  forall B tsize talign needs_drop hash_of alloc_refuses (t : table kv) (s : spec) k stamp a t' o evs,
  WidthOK B -> BackendSpec B -> LayoutOK tsize talign -> TotalHash hash_of ->
  WF B kv (fun e => hash_of (k_id e)) t -> TOwn B kv tsize talign t -> AbsRel t s ->
  rustc_step B tsize talign needs_drop true hash_of alloc_refuses t k stamp a = Ok (t', o, evs) ->
  is_unwind o = false /\
  exists s', spec_accepts s (entry_op_of k stamp a) o = Some s' /\
             WF B kv (fun e => hash_of (k_id e)) t' /\ TOwn B kv tsize talign t' /\ AbsRel t' s'.
Proof.
  intros B tsize talign needs_drop hash_of alloc_refuses t s k stamp a t' o evs HW HB HL Htot HWF HA HR E.
  exact (rustc_step_refines_inv B HW HB tsize talign HL needs_drop hash_of Htot alloc_refuses t s k stamp a t' o evs
           (conj HWF (conj HA HR)) E).
Qed.

(* the only failures of rustc_step from a valid state are the two documented library panics of
   the infallible reserve (capacity overflow, allocation failure) *)
Theorem rustc_step_fail_benign :
  forall B tsize talign needs_drop hash_of alloc_refuses (t : table kv) k stamp a er,
  WidthOK B -> BackendSpec B -> LayoutOK tsize talign -> TotalHash hash_of ->
  WF B kv (fun e => hash_of (k_id e)) t -> TOwn B kv tsize talign t ->
  rustc_step B tsize talign needs_drop true hash_of alloc_refuses t k stamp a = Fail er -> benign er.
Proof.
  intros B tsize talign needs_drop hash_of alloc_refuses t k stamp a er HW HB HL Htot HWF HA E.
  destruct (Htot k) as (hv & Hh). pose proof HWF as (Hs & _).
  rewrite (rustc_step_eq B HW HB tsize talign HL needs_drop hash_of Htot alloc_refuses t k stamp a hv HWF HA Hh) in E.
  pose proof (map_step_safe B tsize talign needs_drop hash_of alloc_refuses t (entry_op_of k stamp a) HW HB HL
                (entry_op_args_ok k stamp a) Hs HA) as Hsafe.
  assert (H1 : op_args_ok (OpReserve 1)) by (split; [lia|reflexivity]).
  pose proof (map_step_safe B tsize talign needs_drop hash_of alloc_refuses t (OpReserve 1) HW HB HL H1 Hs HA) as Hres.
  destruct (find B kv t hv (eq_key k)) as [[i|]|er0] eqn:Ef.
  - rewrite E in Hsafe. exact Hsafe.
  - unfold reserve_then in E.
    destruct (map_step B tsize talign needs_drop true hash_of alloc_refuses t (OpReserve 1))
      as [[[t1 o1] evs1]|er1]; cbn [bind] in E.
    + destruct Hres as (Hs1 & HA1). destruct (is_unwind o1); [discriminate E|].
      pose proof (map_step_safe B tsize talign needs_drop hash_of alloc_refuses t1 (entry_op_of k stamp a) HW HB HL
                    (entry_op_args_ok k stamp a) Hs1 HA1) as Hsafe1.
      destruct (map_step B tsize talign needs_drop true hash_of alloc_refuses t1 (entry_op_of k stamp a))
        as [[[t2 o2] evs2]|er2]; cbn [bind] in E; [discriminate E|].
      injection E as <-. exact Hsafe1.
    + injection E as <-. exact Hres.
  - exfalso. destruct (Nat.eq_dec (mask t) 0) as [Hm|Hm].
    + rewrite (safe_singleton B kv t Hs Hm), (find_new_table B HW HB) in Ef. discriminate Ef.
    + change (eq_key k) with (pure_eq (fun e : kv => (k_id e =? k)%Z)) in Ef.
      destruct (find_total B kv HW HB t Hm (fun e : kv => (k_id e =? k)%Z) hv Hs) as (r & C).
      rewrite Ef in C. discriminate C.
Qed.

(* ------------------------------------------------------------------------------------------ *)
(* E6: the raw entry builders -- pure program equalities, NO invariant, any hasher             *)
(* ------------------------------------------------------------------------------------------ *)
Section RawEq.
  Variable B : backend.
  Variable tsize talign : Z.
  Variable needs_drop guard_fix : bool.
  Variable hash_of : Z -> option Z.
  Variable alloc_refuses : bool.

  Local Notation STEP := (map_step B tsize talign needs_drop guard_fix hash_of alloc_refuses).
  Local Notation RAW := (raw_step B tsize talign needs_drop guard_fix hash_of alloc_refuses).
  Local Notation RAWH := (raw_step_hashed B tsize talign needs_drop guard_fix hash_of alloc_refuses).

  (* from_key_hashed_nocheck with the hash the map's hasher gives the key *)
  Lemma raw_step_hashed_eq (t : table kv) k a hv : raw_act_key_is k a -> hash_of k = Some hv ->
    RAWH t hv k a = STEP t (raw_op_of k a).
  Proof.
    intros Hk Hh. unfold raw_step_hashed.
    destruct a as [ik st v|ik st v| |]; cbn [raw_act_key_is] in Hk; try subst ik;
      cbn [raw_op_of map_step]; unfold m_entry, with_hash; rewrite Hh;
      (destruct (find B kv t hv (eq_key k)) as [[i|]|er]; cbn [bind]; [| |reflexivity]);
      try (destruct (slot_ref kv t i) as [e|er]; cbn [bind raw_occupied]; reflexivity);
      cbn [raw_vacant]; unfold raw_vacant_insert, with_hash; rewrite ?Hh; reflexivity.
  Qed.

  (* from_key: the second hasher call of RawVacantEntryMut::insert is on the same key, the hasher
     is a function: it returns the same hash *)
  Theorem raw_step_eq (t : table kv) k a : raw_act_key_is k a -> RAW t k a = STEP t (raw_op_of k a).
  Proof.
    intros Hk. unfold raw_step. unfold with_hash at 1.
    destruct (hash_of k) as [hv|] eqn:Hh.
    - exact (raw_step_hashed_eq t k a hv Hk Hh).
    - destruct a; cbn [raw_op_of map_step]; unfold m_entry, with_hash; rewrite Hh; reflexivity.
  Qed.

  (* raw_entry().from_key(&k) = get_key_value(&k) on a non-empty map *)
  Theorem raw_get_eq_nonempty (t : table kv) k : items t <> 0%Z ->
    raw_get B hash_of t k = STEP t (OpGetKeyValue k).
  Proof.
    intros Hnz. cbn [map_step]. unfold raw_get, raw_get_hashed, get_inner, with_hash.
    destruct (Z.eqb_spec (items t) 0) as [C|_]; [contradiction|].
    destruct (hash_of k) as [hv|]; [|reflexivity].
    destruct (find B kv t hv (eq_key k)) as [[i|]|er]; reflexivity.
  Qed.
End RawEq.

Section RawGetEmpty.
  Variable B : backend.
  Hypothesis HW : WidthOK B.
  Hypothesis HB : BackendSpec B.
  Variable tsize talign : Z.
  Variable needs_drop guard_fix : bool.
  Variable hash_of : Z -> option Z.
  Variable alloc_refuses : bool.

  Local Notation STEP := (map_step B tsize talign needs_drop guard_fix hash_of alloc_refuses).

  (* on an empty map HashMap::get_key_value answers None without hashing (is_empty shortcut);
     raw_entry().from_key hashes, probes and finds nothing: the same result when the hasher does
     not panic on k *)
  Theorem raw_get_eq_empty (t : table kv) k : SafeWF B kv t -> items t = 0%Z -> hash_of k <> None ->
    raw_get B hash_of t k = Ok (t, OutNone, []) /\ STEP t (OpGetKeyValue k) = Ok (t, OutNone, []).
  Proof.
    intros Hs Hi Hh. split.
    - unfold raw_get, raw_get_hashed, with_hash. destruct (hash_of k) as [hv|]; [|contradiction].
      assert (Ef : find B kv t hv (eq_key k) = Ok None).
      { destruct (Nat.eq_dec (mask t) 0) as [Hm|Hm].
        - rewrite (safe_singleton B kv t Hs Hm). apply (find_new_table B HW HB).
        - change (eq_key k) with (pure_eq (fun e : kv => (k_id e =? k)%Z)).
          apply (find_absent B kv HW HB t Hm _ hv Hs). intros i e He. exfalso.
          assert (Hin : In e (occupants kv t)).
          { apply occupants_In. exists i. split; [exact (nth_Some_lt (slots t) i e He)|exact He]. }
          rewrite (occupants_items0 B kv HW t Hs Hi) in Hin. destruct Hin. }
      rewrite Ef. reflexivity.
    - cbn [map_step]. unfold get_inner. rewrite Hi. reflexivity.
  Qed.

  Theorem raw_get_eq (t : table kv) k : SafeWF B kv t -> (items t = 0%Z -> hash_of k <> None) ->
    raw_get B hash_of t k = STEP t (OpGetKeyValue k).
  Proof.
    intros Hs Hh. destruct (Z.eq_dec (items t) 0) as [Hi|Hnz].
    - destruct (raw_get_eq_empty t k Hs Hi (Hh Hi)) as (-> & ->). reflexivity.
    - exact (raw_get_eq_nonempty B tsize talign needs_drop guard_fix hash_of alloc_refuses t k Hnz).
  Qed.
End RawGetEmpty.

(* the side condition of raw_get_eq is needed: on the empty map, with a hasher that panics,
   get_key_value answers None (it never hashes) while raw_entry().from_key(&k) unwinds *)
Theorem raw_get_counterexample :
  let t := new_table sse2_backend kv in
  let hash_of := fun _ : Z => @None Z in
  SafeWF sse2_backend kv t /\ items t = 0%Z /\
  raw_get sse2_backend hash_of t 1%Z = Ok (t, OutUnwind, []) /\
  map_step sse2_backend 24 8 false true hash_of false t (OpGetKeyValue 1%Z) = Ok (t, OutNone, []).
Proof.
  cbv zeta. split; [apply new_table_safe|]. split; [reflexivity|]. split; vm_compute; reflexivity.
Qed.

(* ------------------------------------------------------------------------------------------ *)
(* non-vacuity: a full table (growth_left = 0), an absent key                                   *)
(* ------------------------------------------------------------------------------------------ *)
Definition ex_hash (k : Z) : option Z := Some (k * 1000003)%Z.

Fixpoint ex_run (B : backend) (t : table kv) (ops : list map_op) : table kv :=
  match ops with
  | [] => t
  | op :: r => match map_step B 24 8 false true ex_hash false t op with
               | Ok (t1, _, _) => ex_run B t1 r
               | Fail _ => t
               end
  end.

(* three inserts into HashMap::new(): 4 buckets, capacity 3, 3 items *)
Definition ex_full (B : backend) : table kv :=
  ex_run B (new_table B kv) [OpInsert 1 0 10; OpInsert 2 0 20; OpInsert 3 0 30].

Example ex_full_is_full :
  (mask (ex_full sse2_backend) = 3 /\ items (ex_full sse2_backend) = 3%Z /\ growth_left (ex_full sse2_backend) = 0%Z) /\
  (mask (ex_full generic_backend) = 3 /\ items (ex_full generic_backend) = 3%Z /\ growth_left (ex_full generic_backend) = 0%Z).
Proof. vm_compute. repeat split. Qed.

(* rustc_entry(4).or_insert(40) on it: the reserve(1) of rustc_entry resizes to 8 buckets, then
   insert_no_grow; the same table, output and events as `reserve(1); entry(4).or_insert(40)` *)
Example rustc_step_full_table_example :
  forall B, B = sse2_backend \/ B = generic_backend ->
  rustc_step B 24 8 false true ex_hash false (ex_full B) 4 7 (ActOrInsert 40) =
  reserve_then B 24 8 false true ex_hash false (ex_full B) (OpEntryOrInsert 4 7 40) /\
  exists t' evs,
    rustc_step B 24 8 false true ex_hash false (ex_full B) 4 7 (ActOrInsert 40) = Ok (t', OutVal 40, evs) /\
    mask t' = 7 /\ items t' = 4%Z /\ growth_left t' = 3%Z /\ evs <> [] /\
    map_step B 24 8 false true ex_hash false t' (OpGetKeyValue 4) = Ok (t', OutKV 7 40, []).
Proof.
  intros B [-> | ->].
  - split; [vm_compute; reflexivity|]. eexists. eexists.
    split; [vm_compute; reflexivity|]. vm_compute. repeat split. discriminate.
  - split; [vm_compute; reflexivity|]. eexists. eexists.
    split; [vm_compute; reflexivity|]. vm_compute. repeat split. discriminate.
Qed.

Print Assumptions insert_no_grow_spec.
Print Assumptions insert_no_grow_WF.
Print Assumptions rustc_step_eq.
Print Assumptions rustc_step_vacant_noinsert_eq.
Print Assumptions rustc_step_refines.
Print Assumptions rustc_step_fail_benign.
Print Assumptions raw_step_eq.
Print Assumptions raw_get_eq.
Print Assumptions raw_get_counterexample.
Print Assumptions rustc_step_full_table_example.
