(* PanicFacts.v -- panicking Eq and panicking retain / extract_if closures (Model/PanicOps.v).

   Part 1 (Eq).  A probe with a callback that may panic is compared with the probe with the
   total callback "true where the first one panics": they run in lockstep until the first
   comparison that panics, which is the comparison the total probe stops at.  Hence, on a valid
   table, a probe with a panicking Eq returns normally or propagates the panic of the callback --
   it never reaches a checked unsafe precondition and never runs out of probe steps -- and a
   panic is always the panic of a comparison with a stored element.
   Part 2 (retain).  The loop with a panicking closure is the total loop with the closure cut
   at the first panic; safety / WF / element accounting are proved once for the generalised
   total loop (any stateful FnMut(&K, &mut V) -> bool) and transferred.
   Part 3 (extract_if).  Safety, WF and element accounting of the loop with a panicking closure.
   No axioms. *)
From Coq Require Import ZArith List Bool Lia Permutation.
From HB Require Import RsPrelude Sse2 Gen Group Raw Map Check ArithFacts WFDefs GroupFacts ProbeFacts
  IterFacts SafeInsertErase SafeAllocClear FindFacts ResizeFacts WFInsertRemove RawOpsSafe RawOpsWF
  MapDefs AssocFacts MapRefineBase MapStepSafe MapRefineLoops PanicOps.
Import ListNotations.
Open Scope nat_scope.

(* ---------------------------------------------------------------------------------------- *)
(* Part 1: lockstep of two callbacks                                                          *)
(* ---------------------------------------------------------------------------------------- *)
(* eq' is eq, except that it answers `true` where eq panics *)
Definition PanicRel (eq eq' : nat -> res bool) : Prop :=
  forall i, eq i = eq' i \/ (eq i = Fail Panic /\ eq' i = Ok true).

Section Lockstep.
  Variable B : backend.
  Variable T : Type.
  Local Notation GW := (bk_width B).

  Lemma scan_rel (t : table T) eq eq' pos : PanicRel eq eq' -> forall bits,
    scan_matches T t eq pos bits = scan_matches T t eq' pos bits \/
    (scan_matches T t eq pos bits = Fail Panic /\
     exists i, scan_matches T t eq' pos bits = Ok (Some i) /\ eq i = Fail Panic).
  Proof.
    intros Hrel. induction bits as [|b r IH]; [left; reflexivity|].
    cbn [scan_matches].
    destruct (Hrel (n_land (pos + b) (mask t))) as [E|(E1 & E2)].
    - rewrite E. destruct (eq' (n_land (pos + b) (mask t))) as [[|]|er]; cbn [bind].
      + left. reflexivity.
      + exact IH.
      + left. reflexivity.
    - rewrite E1, E2. cbn [bind]. right. split; [reflexivity|].
      exists (n_land (pos + b) (mask t)). split; [reflexivity|exact E1].
  Qed.

  Lemma find_loop_rel (t : table T) tag eq eq' : PanicRel eq eq' -> forall n pos stride,
    find_inner_loop B T n t tag eq pos stride = find_inner_loop B T n t tag eq' pos stride \/
    (find_inner_loop B T n t tag eq pos stride = Fail Panic /\
     exists i, find_inner_loop B T n t tag eq' pos stride = Ok (Some i) /\ eq i = Fail Panic).
  Proof.
    intros Hrel. induction n as [|n IH]; intros pos stride; [left; reflexivity|].
    cbn [find_inner_loop].
    destruct (load B T t pos) as [g|er]; cbn [bind]; [|left; reflexivity].
    destruct (scan_rel t eq eq' pos Hrel (g_match_tag B g tag)) as [E|(E1 & i & E2 & Ei)].
    - rewrite E. destruct (scan_matches T t eq' pos (g_match_tag B g tag)) as [[i0|]|er]; cbn [bind].
      + left. reflexivity.
      + destruct (g_any_empty B g); [left; reflexivity|].
        destruct (n_move_next GW (mask t) pos stride) as [p' s']. apply IH.
      + left. reflexivity.
    - rewrite E1, E2. cbn [bind]. right. split; [reflexivity|]. exists i. split; [reflexivity|exact Ei].
  Qed.

  Lemma foi_loop_rel (t : table T) tag eq eq' : PanicRel eq eq' -> forall n ins pos stride,
    find_or_insert_loop B T n t tag eq ins pos stride = find_or_insert_loop B T n t tag eq' ins pos stride \/
    (find_or_insert_loop B T n t tag eq ins pos stride = Fail Panic /\
     exists i, find_or_insert_loop B T n t tag eq' ins pos stride = Ok (inl i) /\ eq i = Fail Panic).
  Proof.
    intros Hrel. induction n as [|n IH]; intros ins pos stride; [left; reflexivity|].
    cbn [find_or_insert_loop].
    destruct (load B T t pos) as [g|er]; cbn [bind]; [|left; reflexivity].
    destruct (scan_rel t eq eq' pos Hrel (g_match_tag B g tag)) as [E|(E1 & i & E2 & Ei)].
    - rewrite E. destruct (scan_matches T t eq' pos (g_match_tag B g tag)) as [[i0|]|er]; cbn [bind].
      + left. reflexivity.
      + destruct (g_any_empty B g); [left; reflexivity|].
        destruct (n_move_next GW (mask t) pos stride) as [p' s']. apply IH.
      + left. reflexivity.
    - rewrite E1, E2. cbn [bind]. right. split; [reflexivity|]. exists i. split; [reflexivity|exact Ei].
  Qed.

  (* a hit is a bucket on which the callback answered `true` (any callback, any table) *)
  Lemma scan_matches_Some (t : table T) eq pos i : forall bits,
    scan_matches T t eq pos bits = Ok (Some i) -> eq i = Ok true.
  Proof.
    induction bits as [|b r IH]; intros H; [discriminate H|].
    cbn [scan_matches] in H.
    destruct (eq (n_land (pos + b) (mask t))) as [[|]|er] eqn:E; cbn [bind] in H.
    - injection H as <-. exact E.
    - exact (IH H).
    - discriminate H.
  Qed.

  Lemma find_loop_Some (t : table T) tag eq i : forall n pos stride,
    find_inner_loop B T n t tag eq pos stride = Ok (Some i) -> eq i = Ok true.
  Proof.
    induction n as [|n IH]; intros pos stride H; [discriminate H|].
    cbn [find_inner_loop] in H.
    destruct (load B T t pos) as [g|er]; cbn [bind] in H; [|discriminate H].
    destruct (scan_matches T t eq pos (g_match_tag B g tag)) as [[i0|]|er] eqn:Es; cbn [bind] in H.
    - injection H as <-. exact (scan_matches_Some t eq pos i0 _ Es).
    - destruct (g_any_empty B g); [discriminate H|].
      destruct (n_move_next GW (mask t) pos stride) as [p' s']. exact (IH _ _ H).
    - discriminate H.
  Qed.

  (* callbacks that agree everywhere give the same probe *)
  Lemma PanicRel_ext eq eq' : (forall i, eq i = eq' i) -> PanicRel eq eq'.
  Proof. intros H i. left. apply H. Qed.

  Lemma find_inner_ext (t : table T) hash eq eq' : (forall i, eq i = eq' i) ->
    find_inner B T t hash eq = find_inner B T t hash eq'.
  Proof.
    intros H. unfold find_inner.
    destruct (find_loop_rel t (tag_full hash) eq eq' (PanicRel_ext eq eq' H)
                (probe_fuel B T t) (n_probe_start (mask t) hash) 0) as [E|(_ & i & E2 & Ei)]; [exact E|].
    apply find_loop_Some in E2. rewrite H in Ei. congruence.
  Qed.

  Lemma foi_inner_ext (t : table T) hash eq eq' : (forall i, eq i = eq' i) ->
    find_or_find_insert_slot_inner B T t hash eq = find_or_find_insert_slot_inner B T t hash eq'.
  Proof.
    intros H. unfold find_or_find_insert_slot_inner.
    destruct (foi_loop_rel t (tag_full hash) eq eq' (PanicRel_ext eq eq' H)
                (probe_fuel B T t) None (n_probe_start (mask t) hash) 0) as [E|(_ & i & E2 & Ei)]; [exact E|].
    apply (find_of_foi B T) in E2. apply find_loop_Some in E2. rewrite H in Ei. congruence.
  Qed.

  (* the closure RawTable::find builds, for the two callbacks *)
  Lemma eq_at_panic_rel (t : table T) (P : T -> option bool) :
    PanicRel (eq_at T t (panicky_eq P)) (eq_at T t (pure_eq (total_of true P))).
  Proof.
    intros i. unfold eq_at. destruct (slot_ref T t i) as [e|er]; cbn [bind]; [|left; reflexivity].
    unfold panicky_eq, pure_eq, total_of. destruct (P e) as [b|]; [left; reflexivity|right; split; reflexivity].
  Qed.

  (* slot_ref never fails with Panic: a Panic of the closure is a Panic of the user's Eq *)
  Lemma eq_at_panicky_Panic (t : table T) (P : T -> option bool) i :
    eq_at T t (panicky_eq P) i = Fail Panic ->
    exists e, slot_ref T t i = Ok e /\ P e = None.
  Proof.
    unfold eq_at, slot_ref. destruct (is_singleton T t); [discriminate|].
    destruct (nth_error (slots t) i) as [[e|]|]; cbn [bind]; try discriminate.
    unfold panicky_eq. destruct (P e) as [b|] eqn:E; [discriminate|]. intros _. exists e. split; [reflexivity|exact E].
  Qed.

  Lemma eq_at_panicky_true (t : table T) (P : T -> option bool) i :
    eq_at T t (panicky_eq P) i = Ok true ->
    exists e, slot_ref T t i = Ok e /\ P e = Some true.
  Proof.
    unfold eq_at. destruct (slot_ref T t i) as [e|er]; cbn [bind]; [|discriminate].
    unfold panicky_eq. destruct (P e) as [b|] eqn:E; [|discriminate]. intros H. exists e. split; [reflexivity|congruence].
  Qed.

  Lemma slot_ref_slot (t : table T) i e : slot_ref T t i = Ok e -> i < length (slots t) /\ slot T t i = Some e.
  Proof.
    unfold slot_ref. destruct (is_singleton T t); [discriminate|].
    destruct (nth_error (slots t) i) as [[e0|]|] eqn:E; try discriminate. intros H. injection H as <-.
    split; [apply nth_error_Some; rewrite E; discriminate|].
    unfold slot. exact (nth_error_nth _ _ None E).
  Qed.

  Lemma slot_ref_occupant (t : table T) i e : slot_ref T t i = Ok e -> In e (occupants T t).
  Proof. intros H. apply occupants_In. exists i. exact (slot_ref_slot t i e H). Qed.

  (* when no stored element makes P panic, the closure is the closure of any total completion *)
  Lemma eq_at_no_panic (t : table T) (P : T -> option bool) (P' : T -> bool) :
    (forall e, In e (occupants T t) -> P e = Some (P' e)) ->
    forall i, eq_at T t (panicky_eq P) i = eq_at T t (pure_eq P') i.
  Proof.
    intros H i. unfold eq_at. destruct (slot_ref T t i) as [e|er] eqn:E; cbn [bind]; [|reflexivity].
    unfold panicky_eq, pure_eq. rewrite (H e (slot_ref_occupant t i e E)). reflexivity.
  Qed.
End Lockstep.

(* ---------------------------------------------------------------------------------------- *)
(* P1, P2: probes with a panicking Eq on a valid table                                        *)
(* ---------------------------------------------------------------------------------------- *)
Section PanickyProbe.
  Variable B : backend.
  Variable T : Type.
  Hypothesis HW : WidthOK B.
  Hypothesis HB : BackendSpec B.

  Variable t : table T.
  Hypothesis Hsafe : SafeWF B T t.
  Hypothesis Hnz : mask t <> 0.
  Variable hash : Z.
  Variable P : T -> option bool.

  Local Notation FIND eqf := (find B T t hash eqf).
  Local Notation FOI eqf := (find_or_find_insert_slot_inner B T t hash (eq_at T t eqf)).

  (* the culprit of a propagated panic *)
  Definition EqPanicked : Prop := exists i e, i < nb T t /\ slot T t i = Some e /\ P e = None.

  Lemma culprit i : i < nb T t -> eq_at T t (panicky_eq P) i = Fail Panic -> EqPanicked.
  Proof.
    intros Hi H. destruct (eq_at_panicky_Panic T t P i H) as (e & Er & Ep).
    exists i, e. split; [exact Hi|]. split; [exact (proj2 (slot_ref_slot T t i e Er))|exact Ep].
  Qed.

  Lemma find_panicky_cases :
    (exists r, FIND (panicky_eq P) = Ok r /\ FIND (pure_eq (total_of true P)) = Ok r) \/
    (FIND (panicky_eq P) = Fail Panic /\ EqPanicked).
  Proof.
    destruct (find_total B T HW HB t Hnz (total_of true P) hash Hsafe) as (r & Er).
    unfold find in *.
    destruct (find_loop_rel B T t (tag_full hash) _ _ (eq_at_panic_rel T t P)
                (probe_fuel B T t) (n_probe_start (mask t) hash) 0) as [E|(E1 & i & E2 & Ei)].
    - left. exists r. unfold find_inner. rewrite E. split; exact Er.
    - right. split; [exact E1|].
      destruct (find_sound B T HW HB t Hnz (total_of true P) hash i Hsafe E2) as (Hi & _).
      exact (culprit i Hi Ei).
  Qed.

  Lemma foi_panicky_cases :
    (exists r, FOI (panicky_eq P) = Ok r /\ FOI (pure_eq (total_of true P)) = Ok r) \/
    (FOI (panicky_eq P) = Fail Panic /\ EqPanicked).
  Proof.
    destruct (foi_total B T HW HB t Hnz (total_of true P) hash Hsafe) as (r & Er).
    unfold find_or_find_insert_slot_inner in *.
    destruct (foi_loop_rel B T t (tag_full hash) _ _ (eq_at_panic_rel T t P)
                (probe_fuel B T t) None (n_probe_start (mask t) hash) 0) as [E|(E1 & i & E2 & Ei)].
    - left. exists r. rewrite E. split; exact Er.
    - right. split; [exact E1|].
      destruct (foi_found_sound B T HW HB t Hnz (total_of true P) hash i Hsafe E2) as (Hi & _).
      exact (culprit i Hi Ei).
  Qed.

  (* a hit is a stored element on which Eq answered `true` *)
  Lemma find_panicky_hit i : FIND (panicky_eq P) = Ok (Some i) ->
    i < nb T t /\ exists e, slot T t i = Some e /\ P e = Some true.
  Proof.
    intros H. destruct find_panicky_cases as [(r & E1 & E2)|(E1 & _)]; [|congruence].
    rewrite H in E1. injection E1 as <-.
    destruct (find_sound B T HW HB t Hnz (total_of true P) hash i Hsafe E2) as (Hi & _).
    split; [exact Hi|]. unfold find, find_inner in H. apply find_loop_Some in H.
    destruct (eq_at_panicky_true T t P i H) as (e & Er & Ep). exists e.
    split; [exact (proj2 (slot_ref_slot T t i e Er))|exact Ep].
  Qed.

  Lemma foi_panicky_hit i : FOI (panicky_eq P) = Ok (inl i) ->
    i < nb T t /\ exists e, slot T t i = Some e /\ P e = Some true.
  Proof.
    intros H. apply foi_inl_iff_find in H. exact (find_panicky_hit i H).
  Qed.

  Lemma foi_panicky_slot s : FOI (panicky_eq P) = Ok (inr s) ->
    s < nb T t /\ is_special (byte T t s) = true.
  Proof.
    intros H. destruct foi_panicky_cases as [(r & E1 & E2)|(E1 & _)]; [|congruence].
    rewrite H in E1. injection E1 as <-.
    exact (foi_slot_sound B T HW HB t Hnz (total_of true P) hash s Hsafe E2).
  Qed.

  (* P1 *)
  Theorem find_panicky_total :
    ((exists r, FIND (panicky_eq P) = Ok r) \/ FIND (panicky_eq P) = Fail Panic) /\
    (FIND (panicky_eq P) = Fail Panic -> exists e, In e (occupants T t) /\ P e = None) /\
    (forall i, FIND (panicky_eq P) = Ok (Some i) ->
       i < nb T t /\ exists e, slot T t i = Some e /\ P e = Some true) /\
    (forall P' : T -> bool, (forall e, In e (occupants T t) -> P e = Some (P' e)) ->
       FIND (panicky_eq P) = FIND (pure_eq P')).
  Proof.
    split; [|split; [|split]].
    - destruct find_panicky_cases as [(r & E & _)|(E & _)]; [left; exists r; exact E|right; exact E].
    - intros H. destruct find_panicky_cases as [(r & E & _)|(_ & i & e & Hi & He & Hp)]; [congruence|].
      exists e. split; [|exact Hp]. apply occupants_In. exists i. split; [|exact He].
      destruct (SafeWF_alloc B T t Hsafe Hnz) as ((_ & _ & Hl & _) & _). lia.
    - exact find_panicky_hit.
    - intros P' H. unfold find. apply find_inner_ext. exact (eq_at_no_panic T t P P' H).
  Qed.

  (* P2 *)
  Theorem foi_panicky_total :
    ((exists r, FOI (panicky_eq P) = Ok r) \/ FOI (panicky_eq P) = Fail Panic) /\
    (FOI (panicky_eq P) = Fail Panic -> exists e, In e (occupants T t) /\ P e = None) /\
    (forall i, FOI (panicky_eq P) = Ok (inl i) ->
       i < nb T t /\ exists e, slot T t i = Some e /\ P e = Some true) /\
    (forall s, FOI (panicky_eq P) = Ok (inr s) -> s < nb T t /\ is_special (byte T t s) = true) /\
    (forall P' : T -> bool, (forall e, In e (occupants T t) -> P e = Some (P' e)) ->
       FOI (panicky_eq P) = FOI (pure_eq P')).
  Proof.
    split; [|split; [|split; [|split]]].
    - destruct foi_panicky_cases as [(r & E & _)|(E & _)]; [left; exists r; exact E|right; exact E].
    - intros H. destruct foi_panicky_cases as [(r & E & _)|(_ & i & e & Hi & He & Hp)]; [congruence|].
      exists e. split; [|exact Hp]. apply occupants_In. exists i. split; [|exact He].
      destruct (SafeWF_alloc B T t Hsafe Hnz) as ((_ & _ & Hl & _) & _). lia.
    - exact foi_panicky_hit.
    - exact foi_panicky_slot.
    - intros P' H. apply foi_inner_ext. exact (eq_at_no_panic T t P P' H).
  Qed.
End PanickyProbe.

(* ---------------------------------------------------------------------------------------- *)
(* P3: find_or_find_insert_slot (reserve(1), then probe) with a panicking Eq, caught           *)
(* ---------------------------------------------------------------------------------------- *)
Section InsertEqPanic.
  Variable B : backend.
  Variable T : Type.
  Hypothesis HW : WidthOK B.
  Hypothesis HB : BackendSpec B.
  Variable tsize talign : Z.
  Hypothesis Hts : (0 <= tsize < 2 ^ 64)%Z.
  Hypothesis Hta : exists a : Z, (0 <= a <= 62)%Z /\ talign = (2 ^ a)%Z.
  Variable needs_drop : bool.
  Variable hasher : T -> option Z.

  Local Notation OWN := (TOwn B T tsize talign).
  Local Notation COMMON := (foi_common B T tsize talign).
  Local Notation FOIC t hash eqf ar := (find_or_find_insert_slot_c B T tsize talign needs_drop hasher true t hash eqf ar).

  (* foi_post of RawOpsSafe.v, for a callback that may panic.  The unwound case has two causes:
     the hasher panicked inside the reserve (ReserveUnwind, as before), or Eq panicked in the
     probe that follows a COMPLETED reserve: then t1 is what the reserve returned -- valid, same
     elements (foi_common) -- and some stored element makes Eq panic. *)
  Definition foi_c_post (t : table T) (P : T -> option bool) (alloc_refuses : bool)
             (r : res (table T * list (event T) * bool * option (nat + nat))) : Prop :=
    match r with
    | Ok (t1, evs, false, Some (inl i)) =>
        COMMON t t1 evs /\ i < nb T t1 /\ exists e, slot T t1 i = Some e /\ P e = Some true
    | Ok (t1, evs, false, Some (inr s)) =>
        COMMON t t1 evs /\ s < nb T t1 /\ is_special (byte T t1 s) = true
    | Ok (t1, evs, false, None) => False
    | Ok (t1, evs, true, r) =>
        r = None /\ SafeWF B T t1 /\ OWN t1 /\
        (ReserveUnwind T needs_drop hasher t t1 evs \/
         (COMMON t t1 evs /\ exists e, In e (occupants T t1) /\ P e = None))
    | Fail PanicCapacityOverflow => CapOverflow B T tsize talign t 1
    | Fail AbortAlloc => alloc_refuses = true
    | Fail _ => False
    end.

  Theorem find_or_find_insert_slot_c_spec t hash P alloc_refuses :
    SafeWF B T t -> OWN t ->
    foi_c_post t P alloc_refuses (FOIC t hash (panicky_eq P) alloc_refuses).
  Proof.
    intros Hsafe HA. unfold find_or_find_insert_slot_c.
    assert (H1 : (0 <= 1 < 2 ^ 64)%Z) by (rewrite two_p_64; lia).
    destruct (reserve_spec B T HW HB tsize talign Hts Hta needs_drop hasher t 1 alloc_refuses Hsafe HA H1)
      as (H & Htr & Hnoop).
    destruct (reserve B T tsize talign needs_drop hasher true t 1 alloc_refuses) as [[[[t1 evs] tr] unw]|er]; cbn [bind].
    2:{ destruct er; cbn [reserve_post foi_c_post] in *; try contradiction; exact (proj2 H). }
    rewrite (Htr t1 evs tr unw eq_refl) in H. cbn [reserve_post] in H.
    destruct unw; cbn [foi_c_post].
    - destruct H as (Hs1 & HA1 & Hu). split; [reflexivity|]. split; [exact Hs1|]. split; [exact HA1|]. left. exact Hu.
    - destruct H as (Hs1 & HA1 & Hperm & Hit & Hgl & Hevs).
      assert (Hm1 : mask t1 <> 0) by (apply (growth_pos_mask B T t1 Hs1); lia).
      assert (Hcommon : COMMON t t1 evs).
      { split; [exact Hs1|]. split; [exact HA1|]. split; [exact Hperm|]. split; [exact Hit|].
        split; [lia|]. split; [exact Hm1|]. split; [exact Hevs|].
        intros Hg. specialize (Hnoop ltac:(lia)). injection Hnoop as -> ->. split; reflexivity. }
      destruct (foi_panicky_cases B T HW HB t1 Hs1 Hm1 hash P) as [(r & Er & _)|(Er & i & e & Hi & He & Hp)].
      + pose proof Er as Er'. rewrite Er. destruct r as [i|s]; cbn [foi_c_post]; (split; [exact Hcommon|]).
        * exact (foi_panicky_hit B T HW HB t1 Hs1 Hm1 hash P i Er').
        * exact (foi_panicky_slot B T HW HB t1 Hs1 Hm1 hash P s Er').
      + rewrite Er. cbn [foi_c_post]. split; [reflexivity|]. split; [exact Hs1|]. split; [exact HA1|].
        right. split; [exact Hcommon|]. exists e. split; [|exact Hp].
        apply occupants_In. exists i. split; [|exact He].
        destruct (SafeWF_alloc B T t1 Hs1 Hm1) as ((_ & _ & Hl & _) & _). lia.
  Qed.

  (* the catching variant agrees with Raw.find_or_find_insert_slot whenever that one returns *)
  Lemma foi_c_of_uncaught t hash eqf alloc_refuses x :
    find_or_find_insert_slot B T tsize talign needs_drop hasher true t hash eqf alloc_refuses = Ok x ->
    FOIC t hash eqf alloc_refuses = Ok x.
  Proof.
    unfold find_or_find_insert_slot, find_or_find_insert_slot_c.
    destruct (reserve B T tsize talign needs_drop hasher true t 1 alloc_refuses) as [[[[t1 evs] tr] unw]|er]; cbn [bind];
      [|discriminate].
    destruct unw; [intros H; exact H|].
    destruct (find_or_find_insert_slot_inner B T t1 hash (eq_at T t1 eqf)) as [r|er]; cbn [bind]; [intros H; exact H|discriminate].
  Qed.

  (* ... and turns exactly its `Fail Panic` into the unwound result *)
  Lemma foi_c_of_panic t hash eqf alloc_refuses :
    find_or_find_insert_slot B T tsize talign needs_drop hasher true t hash eqf alloc_refuses = Fail Panic ->
    SafeWF B T t -> OWN t ->
    exists t1 evs, FOIC t hash eqf alloc_refuses = Ok (t1, evs, true, None).
  Proof.
    intros H Hsafe HA. revert H. unfold find_or_find_insert_slot, find_or_find_insert_slot_c.
    assert (H1 : (0 <= 1 < 2 ^ 64)%Z) by (rewrite two_p_64; lia).
    destruct (reserve_spec B T HW HB tsize talign Hts Hta needs_drop hasher t 1 alloc_refuses Hsafe HA H1)
      as (H & _ & _).
    destruct (reserve B T tsize talign needs_drop hasher true t 1 alloc_refuses) as [[[[t1 evs] tr] unw]|er]; cbn [bind].
    2:{ intros E. injection E as ->. cbn [reserve_post] in H. contradiction. }
    destruct unw; [discriminate|].
    destruct (find_or_find_insert_slot_inner B T t1 hash (eq_at T t1 eqf)) as [r|er]; cbn [bind]; [discriminate|].
    intros E. injection E as ->. exists t1, evs. reflexivity.
  Qed.

  (* P3: an Eq panic inside HashMap::insert (hasher not panicking) leaves a valid table holding
     exactly the old elements, possibly re-sized / re-hashed by the reserve *)
  Theorem insert_eq_panic_state t hash P alloc_refuses :
    SafeWF B T t -> OWN t ->
    match FOIC t hash (panicky_eq P) alloc_refuses with
    | Ok (t1, evs, unw, r) =>
        SafeWF B T t1 /\ OWN t1 /\
        (exists dropped, Permutation (occupants T t) (occupants T t1 ++ dropped)) /\
        ((forall e, In e (occupants T t) -> hasher e <> None) ->
           Permutation (occupants T t1) (occupants T t) /\ items t1 = items t /\
           ReserveEvs B T tsize talign t t1 evs /\
           (unw = true -> r = None /\ exists e, In e (occupants T t) /\ P e = None) /\
           (unw = false -> exists x, r = Some x))
    | Fail e => e = PanicCapacityOverflow \/ e = AbortAlloc
    end.
  Proof.
    intros Hsafe HA.
    pose proof (find_or_find_insert_slot_c_spec t hash P alloc_refuses Hsafe HA) as H.
    destruct (FOIC t hash (panicky_eq P) alloc_refuses) as [[[[t1 evs] unw] r]|er].
    2:{ destruct er; cbn [foi_c_post] in H; try contradiction; [left|right]; reflexivity. }
    assert (Hc : COMMON t t1 evs ->
                 SafeWF B T t1 /\ OWN t1 /\ Permutation (occupants T t1) (occupants T t) /\
                 items t1 = items t /\ ReserveEvs B T tsize talign t t1 evs).
    { intros (A1 & A2 & A3 & A4 & _ & _ & A7 & _). repeat (split; [assumption|]). exact A7. }
    assert (Hsub : Permutation (occupants T t1) (occupants T t) ->
                   exists dropped, Permutation (occupants T t) (occupants T t1 ++ dropped)).
    { intros Pm. exists []. rewrite app_nil_r. symmetry. exact Pm. }
    destruct unw; cbn [foi_c_post] in H.
    - destruct H as (-> & Hs1 & HA1 & [Hu|(Hcm & e & He & Hp)]).
      + split; [exact Hs1|]. split; [exact HA1|].
        destruct (ReserveUnwind_sub T needs_drop hasher t t1 evs Hu) as (Hd & e & He & Hh).
        split; [exact Hd|]. intros Hno. exfalso. exact (Hno e He Hh).
      + destruct (Hc Hcm) as (_ & _ & Pm & Hit & Hev).
        split; [exact Hs1|]. split; [exact HA1|]. split; [exact (Hsub Pm)|]. intros _.
        split; [exact Pm|]. split; [exact Hit|]. split; [exact Hev|]. split; [|discriminate].
        intros _. split; [reflexivity|]. exists e. split; [|exact Hp].
        exact (Permutation_in _ Pm He).
    - destruct r as [[i|s]|]; [| |contradiction]; destruct H as (Hcm & _);
        destruct (Hc Hcm) as (Hs1 & HA1 & Pm & Hit & Hev);
        (split; [exact Hs1|]; split; [exact HA1|]; split; [exact (Hsub Pm)|]; intros _;
         split; [exact Pm|]; split; [exact Hit|]; split; [exact Hev|]; split; [discriminate|]; intros _; eexists; reflexivity).
  Qed.
End InsertEqPanic.

(* ---------------------------------------------------------------------------------------- *)
(* Part 2: retain                                                                             *)
(* ---------------------------------------------------------------------------------------- *)
Lemma upd_same {A} (l : list A) : forall i x, nth_error l i = Some x -> upd l i x = l.
Proof.
  induction l as [|a l IH]; intros [|i] x H; cbn [nth_error] in H; try discriminate H.
  - injection H as ->. reflexivity.
  - unfold upd in *. cbn [firstn skipn app]. f_equal. exact (IH i x H).
Qed.

(* writing back the value that is already there changes nothing *)
Lemma slot_write_same {T} (t : table T) i e : slot_ref T t i = Ok e -> slot_write T t i e = Ok t.
Proof.
  unfold slot_ref, slot_write. destruct (is_singleton T t); [discriminate|].
  destruct (nth_error (slots t) i) as [[e0|]|] eqn:E; try discriminate. intros H. injection H as <-.
  assert (Hi : i < length (slots t)) by (apply nth_error_Some; rewrite E; discriminate).
  destruct (Nat.ltb_spec i (length (slots t))) as [_|C]; [|lia].
  unfold with_slots. rewrite (upd_same _ _ _ E). destruct t; reflexivity.
Qed.

(* the element after the closure wrote v through its `&mut V` *)
Definition upd_val (e : kv) (v : Z) : kv := mkKV (k_id e) (k_stamp e) v.

Lemma upd_val_same e : upd_val e (v_val e) = e.
Proof. destruct e; reflexivity. Qed.

(* what the generalised retain does to the elements it visits, in iteration order:
   those it keeps (with their new values) and those it erases (idem; these are dropped) *)
Fixpoint kept_g (f : nat -> kv -> Z * bool) (n : nat) (es : list kv) : list kv :=
  match es with
  | [] => []
  | e :: r => (if snd (f n e) then [upd_val e (fst (f n e))] else []) ++ kept_g f (S n) r
  end.

Fixpoint dropped_g (f : nat -> kv -> Z * bool) (n : nat) (es : list kv) : list kv :=
  match es with
  | [] => []
  | e :: r => (if snd (f n e) then [] else [upd_val e (fst (f n e))]) ++ dropped_g f (S n) r
  end.

Definition ev_drops (needs_drop : bool) (l : list kv) : list (event kv) :=
  if needs_drop then map EvDrop l else [].

Lemma ev_drops_app nd l1 l2 : ev_drops nd (l1 ++ l2) = ev_drops nd l1 ++ ev_drops nd l2.
Proof. unfold ev_drops. destruct nd; [apply map_app|reflexivity]. Qed.

(* the closure of OpRetain, with a panic *)
Definition bumpv (bump : Z) (e : kv) : kv := upd_val e (wadd 64 (v_val e) bump).

Lemma cut_closure_lt pred bump c n e : n < c ->
  cut_closure pred bump c n e = (wadd 64 (v_val e) bump, total_of true pred e).
Proof. intros H. unfold cut_closure. destruct (Nat.ltb_spec n c); [reflexivity|lia]. Qed.

Lemma cut_closure_ge pred bump c n e : c <= n -> cut_closure pred bump c n e = (v_val e, true).
Proof. intros H. unfold cut_closure. destruct (Nat.ltb_spec n c); [lia|reflexivity]. Qed.

Lemma kept_cut_idle pred bump c : forall es n, c <= n -> kept_g (cut_closure pred bump c) n es = es.
Proof.
  induction es as [|e r IH]; intros n H; [reflexivity|]. cbn [kept_g].
  rewrite (cut_closure_ge pred bump c n e H). cbn [fst snd app]. rewrite upd_val_same, IH by lia. reflexivity.
Qed.

Lemma dropped_cut_idle pred bump c : forall es n, c <= n -> dropped_g (cut_closure pred bump c) n es = [].
Proof.
  induction es as [|e r IH]; intros n H; [reflexivity|]. cbn [dropped_g].
  rewrite (cut_closure_ge pred bump c n e H). cbn [fst snd app]. apply IH. lia.
Qed.

Lemma kept_cut pred bump : forall es n k,
  kept_g (cut_closure pred bump (n + k)) n es =
  map (bumpv bump) (filter (total_of true pred) (firstn k es)) ++ skipn k es.
Proof.
  induction es as [|e r IH]; intros n k; [destruct k; reflexivity|].
  destruct k as [|k].
  - cbn [firstn skipn filter map app]. apply kept_cut_idle. lia.
  - cbn [kept_g firstn skipn filter]. rewrite (cut_closure_lt pred bump (n + S k) n e) by lia. cbn [fst snd].
    replace (n + S k) with (S n + k) by lia. rewrite IH.
    destruct (total_of true pred e); reflexivity.
Qed.

Lemma dropped_cut pred bump : forall es n k,
  dropped_g (cut_closure pred bump (n + k)) n es =
  map (bumpv bump) (filter (fun e => negb (total_of true pred e)) (firstn k es)).
Proof.
  induction es as [|e r IH]; intros n k; [destruct k; reflexivity|].
  destruct k as [|k].
  - cbn [firstn filter map]. apply dropped_cut_idle. lia.
  - cbn [dropped_g firstn filter]. rewrite (cut_closure_lt pred bump (n + S k) n e) by lia. cbn [fst snd].
    replace (n + S k) with (S n + k) by lia. rewrite IH.
    destruct (total_of true pred e); reflexivity.
Qed.

Lemma first_none_le pred es : first_none pred es <= length es.
Proof. induction es as [|e r IH]; cbn [first_none length]; [lia|]. destruct (pred e); lia. Qed.

(* before the cut the closure answers; at the cut (if it is inside the list) it panics *)
Lemma first_none_prefix pred es : Forall (fun e => pred e <> None) (firstn (first_none pred es) es).
Proof.
  induction es as [|e r IH]; cbn [first_none]; [constructor|].
  destruct (pred e) as [b|] eqn:E; cbn [firstn]; [|constructor].
  constructor; [rewrite E; discriminate|exact IH].
Qed.

Lemma first_none_at pred es : first_none pred es < length es ->
  exists x, nth_error es (first_none pred es) = Some x /\ pred x = None.
Proof.
  induction es as [|e r IH]; cbn [first_none length]; [lia|].
  destruct (pred e) as [b|] eqn:E; intros H.
  - cbn [nth_error]. apply IH. lia.
  - exists e. split; [reflexivity|exact E].
Qed.

Lemma first_none_total pred es : (forall e, In e es -> pred e <> None) -> first_none pred es = length es.
Proof.
  induction es as [|e r IH]; intros H; [reflexivity|]. cbn [first_none length].
  destruct (pred e) eqn:E; [|exfalso; exact (H e (or_introl eq_refl) E)].
  f_equal. apply IH. intros x Hx. apply H. right. exact Hx.
Qed.

Section Retain.
  Variable B : backend.
  Hypothesis HW : WidthOK B.
  Hypothesis HB : BackendSpec B.
  Variable needs_drop : bool.

  Local Notation SAFE := (SafeWF B kv).
  Local Notation LINV := (LoopInv B).
  Local Notation GLOOP := (retain_loop_g B needs_drop).
  Local Notation PLOOP := (retain_loop_p B needs_drop).

  (* (a) Map.retain_loop is the generalised loop for the closure of OpRetain *)
  Lemma retain_loop_is_g keep bump : forall fuel t it n evs,
    retain_loop B needs_drop fuel t it keep bump evs = GLOOP fuel t it (keep_bump keep bump) n evs.
  Proof.
    induction fuel as [|fu IH]; intros t it n evs; [reflexivity|].
    cbn [retain_loop retain_loop_g].
    destruct (iter_next B kv t it) as [[[i|] it']|er]; cbn [bind]; try reflexivity.
    destruct (slot_ref kv t i) as [e|er]; cbn [bind]; [|reflexivity].
    unfold keep_bump at 1 2. cbn [fst snd].
    destruct (slot_write kv t i _) as [t1|er]; cbn [bind]; [|reflexivity].
    destruct (existsb (Z.eqb (k_id e)) keep); [apply IH|].
    destruct (erase_drop B kv needs_drop t1 i) as [[t2 evs2]|er]; cbn [bind]; [apply IH|reflexivity].
  Qed.

  (* ... and the loop with a closure that never panics is Map.retain_loop *)
  Lemma retain_loop_p_total keep bump : forall fuel t it evs,
    PLOOP fuel t it (fun e => Some (existsb (Z.eqb (k_id e)) keep)) bump evs =
    match retain_loop B needs_drop fuel t it keep bump evs with
    | Ok (t', evs') => Ok (t', evs', false)
    | Fail er => Fail er
    end.
  Proof.
    induction fuel as [|fu IH]; intros t it evs; [reflexivity|].
    cbn [retain_loop retain_loop_p].
    destruct (iter_next B kv t it) as [[[i|] it']|er]; cbn [bind]; try reflexivity.
    destruct (slot_ref kv t i) as [e|er]; cbn [bind]; [|reflexivity]. cbv zeta.
    destruct (slot_write kv t i _) as [t1|er]; cbn [bind]; [|reflexivity].
    destruct (existsb (Z.eqb (k_id e)) keep); [apply IH|].
    destruct (erase_drop B kv needs_drop t1 i) as [[t2 evs2]|er]; cbn [bind]; [apply IH|reflexivity].
  Qed.

  (* ---- the generalised loop on a valid table: safety, an extra invariant Q, accounting ---- *)
  Section Generic.
    Variable Q : table kv -> Prop.
    Hypothesis Q_write : forall t i e v t', SAFE t -> Q t -> mask t <> 0 -> i < nb kv t ->
      slot kv t i = Some e -> slot_write kv t i (upd_val e v) = Ok t' -> Q t'.
    Hypothesis Q_remove : forall t i e t', SAFE t -> Q t -> mask t <> 0 -> i < nb kv t ->
      is_full (byte kv t i) = true -> Raw.remove B kv t i = Ok (e, t') -> Q t'.
    Variable f : nat -> kv -> Z * bool.

    Lemma retain_g_ok : forall fuel t it P n evs others,
      LINV t it P -> length P < fuel -> Q t ->
      Permutation (occupants kv t) (others ++ elems t P) ->
      exists t', GLOOP fuel t it f n evs = Ok (t', evs ++ ev_drops needs_drop (dropped_g f n (elems t P))) /\
        SAFE t' /\ Q t' /\ mask t' = mask t /\
        Permutation (occupants kv t') (others ++ kept_g f n (elems t P)).
    Proof.
      induction fuel as [|fu IH]; intros t it P n evs others HI Hlen HQ Hocc; [lia|].
      cbn [retain_loop_g]. destruct P as [|x rest].
      - rewrite (LoopInv_nil B t it HI). cbn [bind]. exists t. destruct HI as (Hs & _).
        unfold elems in *. cbn [flat_map kept_g dropped_g] in *.
        split; [unfold ev_drops; destruct needs_drop; cbn [map]; rewrite app_nil_r; reflexivity|].
        split; [exact Hs|]. split; [exact HQ|]. split; [reflexivity|exact Hocc].
      - destruct (LoopInv_step B HW HB t it x rest HI) as (it' & En & Hx & Hfx & Hm & Hnext).
        rewrite En. cbn [bind]. pose proof HI as (Hs & _).
        destruct (full_slot_ref B t x Hs Hm Hx Hfx) as (e & He & Eref). rewrite Eref. cbn [bind]. cbv zeta.
        rewrite (elems_cons t x rest e He) in *. cbn [kept_g dropped_g].
        set (e' := upd_val e (fst (f n e))).
        destruct (slot_write_value_safe B kv t x e e' Hs Hm Hx He)
          as (t1 & Ew & Hs1 & Em1 & _ & _ & _ & Hb1 & Hsx1 & Hso1 & _ & Hperm1).
        change (mkKV (k_id e) (k_stamp e) (fst (f n e))) with e'. rewrite Ew. cbn [bind]. cbn [length] in Hlen.
        assert (HQ1 : Q t1) by exact (Q_write t x e (fst (f n e)) t1 Hs HQ Hm Hx He Ew).
        assert (Erest1 : elems t1 rest = elems t rest).
        { apply elems_ext. intros j Hj. apply Hso1. exact (proj2 (loop_rest_lt B t it x rest j HI Hj)). }
        assert (HI1 : LINV t1 it' rest) by exact (Hnext t1 Hs1 Em1 (fun j _ _ => Hb1 j)).
        assert (K : Permutation (occupants kv t1) (others ++ e' :: elems t rest)).
        { apply (Permutation_cons_inv (a := e)).
          etransitivity; [exact Hperm1|].
          etransitivity; [apply perm_skip; exact Hocc|].
          etransitivity; [apply perm_skip; symmetry; apply Permutation_middle|].
          etransitivity; [apply perm_swap|].
          apply perm_skip. apply Permutation_middle. }
        destruct (snd (f n e)).
        + destruct (IH t1 it' rest (S n) evs (others ++ [e']) HI1 ltac:(lia) HQ1
                      ltac:(rewrite Erest1, <- app_assoc; exact K)) as (t' & E & Hs' & HQ' & Em' & Hp').
          exists t'. rewrite Erest1 in E, Hp'. cbn [app].
          split; [exact E|]. split; [exact Hs'|]. split; [exact HQ'|]. split; [congruence|].
          rewrite <- app_assoc in Hp'. exact Hp'.
        + assert (Hm1 : mask t1 <> 0) by congruence.
          assert (Enb1 : nb kv t1 = nb kv t) by (unfold nb, buckets; rewrite Em1; reflexivity).
          assert (Hx1 : x < nb kv t1) by (rewrite Enb1; exact Hx).
          assert (Hfx1 : is_full (byte kv t1 x) = true) by (rewrite Hb1; exact Hfx).
          destruct (remove_safe B kv HW t1 x Hs1 Hm1 Hx1 Hfx1)
            as (e2 & t2 & Er & He2 & Hs2 & Em2 & _ & _ & _ & Hb2 & Hperm2 & _).
          rewrite Hsx1 in He2. injection He2 as <-.
          unfold erase_drop. rewrite Er. cbn [bind].
          assert (HQ2 : Q t2) by exact (Q_remove t1 x e' t2 Hs1 HQ1 Hm1 Hx1 Hfx1 Er).
          assert (HI2 : LINV t2 it' rest).
          { apply (Hnext t2 Hs2); [congruence|]. intros j Hj Hne.
            rewrite (proj1 (Hb2 j ltac:(rewrite Enb1; exact Hj) Hne)). apply Hb1. }
          assert (Erest2 : elems t2 rest = elems t rest).
          { rewrite <- Erest1. apply elems_ext. intros j Hj.
            destruct (loop_rest_lt B t it x rest j HI Hj) as (Hj1 & Hj2).
            exact (proj2 (Hb2 j ltac:(rewrite Enb1; exact Hj1) Hj2)). }
          assert (K2 : Permutation (occupants kv t2) (others ++ elems t2 rest)).
          { rewrite Erest2. apply (Permutation_cons_inv (a := e')).
            etransitivity; [symmetry; exact Hperm2|]. etransitivity; [exact K|].
            symmetry. apply Permutation_middle. }
          destruct (IH t2 it' rest (S n) (evs ++ (if needs_drop then [EvDrop e'] else [])) others HI2 ltac:(lia) HQ2 K2)
            as (t' & E & Hs' & HQ' & Em' & Hp').
          exists t'. rewrite Erest2 in E, Hp'. cbn [app].
          split; [|split; [exact Hs'|split; [exact HQ'|split; [congruence|exact Hp']]]].
          rewrite E. f_equal. rewrite <- app_assoc. f_equal.
          change (e' :: dropped_g f (S n) (elems t rest)) with ([e'] ++ dropped_g f (S n) (elems t rest)).
          rewrite ev_drops_app. unfold ev_drops at 2. destruct needs_drop; reflexivity.
    Qed.
  End Generic.

  (* ---- (b) the loop with a panicking closure is the total loop of the cut closure ---- *)
  (* past the cut the total closure keeps every element and writes back the value it read:
     the table does not change *)
  Lemma retain_g_idle pred bump c : forall fuel t it P m evs,
    LINV t it P -> length P < fuel -> c <= m ->
    GLOOP fuel t it (cut_closure pred bump c) m evs = Ok (t, evs).
  Proof.
    induction fuel as [|fu IH]; intros t it P m evs HI Hlen Hc; [lia|].
    cbn [retain_loop_g]. destruct P as [|x rest].
    - rewrite (LoopInv_nil B t it HI). reflexivity.
    - destruct (LoopInv_step B HW HB t it x rest HI) as (it' & En & Hx & Hfx & Hm & Hnext).
      rewrite En. cbn [bind]. pose proof HI as (Hs & _).
      destruct (full_slot_ref B t x Hs Hm Hx Hfx) as (e & He & Eref). rewrite Eref. cbn [bind]. cbv zeta.
      rewrite (cut_closure_ge pred bump c m e Hc). cbn [fst snd].
      change (mkKV (k_id e) (k_stamp e) (v_val e)) with (upd_val e (v_val e)). rewrite upd_val_same.
      rewrite (slot_write_same t x e Eref). cbn [bind]. cbn [length] in Hlen.
      apply (IH t it' rest (S m) evs (Hnext t Hs eq_refl (fun j _ _ => eq_refl))); lia.
  Qed.

  Lemma retain_p_is_cut pred bump : forall fuel t it P n evs,
    LINV t it P -> length P < fuel ->
    exists t' evs',
      PLOOP fuel t it pred bump evs = Ok (t', evs', first_none pred (elems t P) <? length P) /\
      GLOOP fuel t it (cut_closure pred bump (n + first_none pred (elems t P))) n evs = Ok (t', evs').
  Proof.
    induction fuel as [|fu IH]; intros t it P n evs HI Hlen; [lia|].
    cbn [retain_loop_g retain_loop_p]. destruct P as [|x rest].
    - rewrite (LoopInv_nil B t it HI). cbn [bind]. exists t, evs. split; reflexivity.
    - destruct (LoopInv_step B HW HB t it x rest HI) as (it' & En & Hx & Hfx & Hm & Hnext).
      rewrite En. cbn [bind]. pose proof HI as (Hs & _).
      destruct (full_slot_ref B t x Hs Hm Hx Hfx) as (e & He & Eref). rewrite Eref. cbn [bind]. cbv zeta.
      rewrite (elems_cons t x rest e He). cbn [first_none]. cbn [length] in *.
      destruct (pred e) as [b|] eqn:Ep.
      + (* the closure answers: both loops do the same thing *)
        rewrite (cut_closure_lt pred bump (n + S (first_none pred (elems t rest))) n e) by lia. cbn [fst snd].
        unfold total_of at 1. rewrite Ep.
        set (e' := mkKV (k_id e) (k_stamp e) (wadd 64 (v_val e) bump)).
        destruct (slot_write_value_safe B kv t x e e' Hs Hm Hx He)
          as (t1 & Ew & Hs1 & Em1 & _ & _ & _ & Hb1 & Hsx1 & Hso1 & _).
        rewrite Ew. cbn [bind].
        assert (Erest1 : elems t1 rest = elems t rest).
        { apply elems_ext. intros j Hj. apply Hso1. exact (proj2 (loop_rest_lt B t it x rest j HI Hj)). }
        assert (HI1 : LINV t1 it' rest) by exact (Hnext t1 Hs1 Em1 (fun j _ _ => Hb1 j)).
        replace (n + S (first_none pred (elems t rest))) with (S n + first_none pred (elems t rest)) by lia.
        change (S (first_none pred (elems t rest)) <? S (length rest))
          with (first_none pred (elems t rest) <? length rest).
        destruct b.
        * destruct (IH t1 it' rest (S n) evs HI1 ltac:(lia)) as (t' & evs' & E1 & E2).
          rewrite Erest1 in E1, E2. exists t', evs'. split; assumption.
        * assert (Hm1 : mask t1 <> 0) by congruence.
          assert (Enb1 : nb kv t1 = nb kv t) by (unfold nb, buckets; rewrite Em1; reflexivity).
          assert (Hx1 : x < nb kv t1) by (rewrite Enb1; exact Hx).
          assert (Hfx1 : is_full (byte kv t1 x) = true) by (rewrite Hb1; exact Hfx).
          destruct (erase_drop_safe B kv HW needs_drop t1 x Hs1 Hm1 Hx1 Hfx1)
            as (e2 & t2 & Ee & _ & Hs2 & Em2 & _ & _ & _ & Hb2 & _).
          rewrite Ee. cbn [bind].
          assert (HI2 : LINV t2 it' rest).
          { apply (Hnext t2 Hs2); [congruence|]. intros j Hj Hne.
            rewrite (proj1 (Hb2 j ltac:(rewrite Enb1; exact Hj) Hne)). apply Hb1. }
          assert (Erest2 : elems t2 rest = elems t rest).
          { rewrite <- Erest1. apply elems_ext. intros j Hj.
            destruct (loop_rest_lt B t it x rest j HI Hj) as (Hj1 & Hj2).
            exact (proj2 (Hb2 j ltac:(rewrite Enb1; exact Hj1) Hj2)). }
          destruct (IH t2 it' rest (S n) (evs ++ (if needs_drop then [EvDrop e2] else [])) HI2 ltac:(lia))
            as (t' & evs' & E1 & E2).
          rewrite Erest2 in E1, E2. exists t', evs'. split; assumption.
      + (* the closure panics here: the panicking loop stops, the cut closure idles to the end *)
        exists t, evs. split; [reflexivity|].
        rewrite Nat.add_0_r.
        rewrite (cut_closure_ge pred bump n n e (Nat.le_refl n)). cbn [fst snd].
        change (mkKV (k_id e) (k_stamp e) (v_val e)) with (upd_val e (v_val e)). rewrite upd_val_same.
        rewrite (slot_write_same t x e Eref). cbn [bind].
        apply (retain_g_idle pred bump n fu t it' rest (S n) evs (Hnext t Hs eq_refl (fun j _ _ => eq_refl))); lia.
  Qed.
End Retain.

(* ---------------------------------------------------------------------------------------- *)
(* Part 2, main theorems                                                                      *)
(* ---------------------------------------------------------------------------------------- *)
(* "the closure was called on e, did not panic, and answered b" *)
Definition says (pred : kv -> option bool) (b : bool) (e : kv) : bool :=
  match pred e with Some b' => Bool.eqb b' b | None => false end.

Lemma says_true_iff pred b e : says pred b e = true <-> pred e = Some b.
Proof.
  unfold says. destruct (pred e) as [b'|]; [|split; discriminate].
  destruct b', b; cbn [Bool.eqb]; split; congruence.
Qed.

Lemma first_none_lt_iff pred es : first_none pred es < length es <-> exists e, In e es /\ pred e = None.
Proof.
  split.
  - intros H. destruct (first_none_at pred es H) as (x & Hx & Hp). exists x.
    split; [exact (nth_error_In _ _ Hx)|exact Hp].
  - intros (e & He & Hp). pose proof (first_none_le pred es) as Hle.
    destruct (Nat.eq_dec (first_none pred es) (length es)) as [E|]; [|lia].
    exfalso. pose proof (first_none_prefix pred es) as HF. rewrite E, firstn_all in HF.
    rewrite Forall_forall in HF. exact (HF e He Hp).
Qed.

Lemma filter_total_says_true pred l : Forall (fun e => pred e <> None) l ->
  filter (total_of true pred) l = filter (says pred true) l.
Proof.
  intros H. apply filter_ext_in. rewrite Forall_forall in H. intros e He. specialize (H e He).
  unfold total_of, says. destruct (pred e) as [[|]|]; try reflexivity. exfalso; apply H; reflexivity.
Qed.

Lemma filter_total_says_false pred l : Forall (fun e => pred e <> None) l ->
  filter (fun e => negb (total_of true pred e)) l = filter (says pred false) l.
Proof.
  intros H. apply filter_ext_in. rewrite Forall_forall in H. intros e He. specialize (H e He).
  unfold total_of, says. destruct (pred e) as [[|]|]; reflexivity.
Qed.

(* where the closure answers, "kept" and "erased" partition the visited elements *)
Lemma says_partition pred l : Forall (fun e => pred e <> None) l ->
  Permutation l (filter (says pred true) l ++ filter (says pred false) l).
Proof.
  induction 1 as [|e l He _ IH]; [apply Permutation_refl|].
  cbn [filter]. destruct (pred e) as [b|] eqn:E; [|exfalso; apply He; reflexivity].
  assert (Et : says pred true e = Bool.eqb b true) by (unfold says; rewrite E; reflexivity).
  assert (Ef : says pred false e = Bool.eqb b false) by (unfold says; rewrite E; reflexivity).
  rewrite Et, Ef. destruct b; cbn [Bool.eqb app].
  - apply perm_skip. exact IH.
  - apply Permutation_cons_app. exact IH.
Qed.

Section RetainMain.
  Variable B : backend.
  Hypothesis HW : WidthOK B.
  Hypothesis HB : BackendSpec B.
  Variable needs_drop : bool.

  Local Notation SAFE := (SafeWF B kv).

  (* every FULL bucket holds one element *)
  Lemma elems_length t P : SAFE t ->
    (forall x, In x P -> x < nb kv t /\ is_full (byte kv t x) = true) -> length (elems t P) = length P.
  Proof.
    intros Hs. induction P as [|x rest IH]; intros H; [reflexivity|].
    destruct (H x (or_introl eq_refl)) as (Hx & Hfx).
    assert (Hm : mask t <> 0).
    { intros E. pose proof (singleton_eq B t Hs E) as Et. rewrite Et in Hx, Hfx.
      rewrite (new_table_bytes_empty B kv HW x Hx) in Hfx. rewrite is_full_EMPTY in Hfx. discriminate Hfx. }
    destruct (full_slot_ref B t x Hs Hm Hx Hfx) as (e & He & _).
    rewrite (elems_cons t x rest e He). cbn [length]. f_equal.
    apply IH. intros y Hy. apply H. right. exact Hy.
  Qed.

  (* what the loop leaves, and what it drops, when the closure panics at position c of the
     iteration order es: the elements before c on which the closure said `true` stay with their
     value bumped, those on which it said `false` are erased (and dropped, with the value
     bumped: the closure had already written through its &mut V); the element at c and
     everything behind it is untouched *)
  Definition retain_kept (pred : kv -> option bool) (bump : Z) (es : list kv) : list kv :=
    map (bumpv bump) (filter (says pred true) (firstn (first_none pred es) es)) ++ skipn (first_none pred es) es.

  Definition retain_dropped (pred : kv -> option bool) (bump : Z) (es : list kv) : list kv :=
    map (bumpv bump) (filter (says pred false) (firstn (first_none pred es) es)).

  Section WithQ.
    Variable Q : table kv -> Prop.
    Hypothesis Q_write : forall t i e v t', SAFE t -> Q t -> mask t <> 0 -> i < nb kv t ->
      slot kv t i = Some e -> slot_write kv t i (upd_val e v) = Ok t' -> Q t'.
    Hypothesis Q_remove : forall t i e t', SAFE t -> Q t -> mask t <> 0 -> i < nb kv t ->
      is_full (byte kv t i) = true -> Raw.remove B kv t i = Ok (e, t') -> Q t'.

    Lemma retain_panic_gen t pred bump : SAFE t -> Q t ->
      exists t',
        m_retain_p B needs_drop t pred bump =
          Ok (t', (if first_none pred (occupants kv t) <? length (occupants kv t) then OutUnwind else OutUnit),
              ev_drops needs_drop (retain_dropped pred bump (occupants kv t))) /\
        SAFE t' /\ Q t' /\ mask t' = mask t /\
        Permutation (occupants kv t') (retain_kept pred bump (occupants kv t)).
    Proof.
      intros Hs HQ.
      destruct (LoopInv_init B HW HB t Hs) as (it & En & HI).
      assert (Hlen : length (full_list t) < S (buckets kv t)).
      { pose proof (full_list_le kv t). unfold nb in *. lia. }
      unfold m_retain_p. rewrite En. cbn [bind].
      destruct (retain_p_is_cut B HW HB needs_drop pred bump _ t it (full_list t) 0 [] HI Hlen)
        as (t1 & evs1 & E1 & E2).
      rewrite E1. cbn [bind].
      assert (Hocc0 : Permutation (occupants kv t) ([] ++ elems t (full_list t))).
      { cbn [app]. rewrite (elems_full B HW t Hs). apply Permutation_refl. }
      destruct (retain_g_ok B HW HB needs_drop Q Q_write Q_remove
                  (cut_closure pred bump (0 + first_none pred (elems t (full_list t))))
                  _ t it (full_list t) 0 [] [] HI Hlen HQ Hocc0)
        as (t2 & E3 & Hs2 & HQ2 & Em2 & Hp2).
      rewrite E2 in E3. injection E3 as <- ->.
      assert (Hl : length (full_list t) = length (occupants kv t)).
      { rewrite <- (elems_full B HW t Hs). symmetry. apply elems_length; [exact Hs|].
        destruct HI as (_ & _ & _ & Hf). exact Hf. }
      rewrite kept_cut in Hp2.
      pose proof (dropped_cut pred bump (elems t (full_list t)) 0 (first_none pred (elems t (full_list t)))) as Hd.
      cbn [Nat.add] in Hd. rewrite Hd. clear Hd. rewrite Hl.
      rewrite (elems_full B HW t Hs) in *. cbn [app] in *.
      pose proof (first_none_prefix pred (occupants kv t)) as Hpre.
      rewrite (filter_total_says_true pred _ Hpre) in Hp2.
      rewrite (filter_total_says_false pred _ Hpre).
      exists t1. split; [reflexivity|]. split; [exact Hs2|]. split; [exact HQ2|]. split; [exact Em2|exact Hp2].
    Qed.
  End WithQ.

  (* the accounting is a partition of the old contents: every element is kept, or dropped
     (once), or was not reached *)
  Lemma retain_accounting pred (es : list kv) :
    Permutation es (filter (says pred true) (firstn (first_none pred es) es) ++
                    filter (says pred false) (firstn (first_none pred es) es) ++
                    skipn (first_none pred es) es).
  Proof.
    rewrite app_assoc. rewrite <- (firstn_skipn (first_none pred es) es) at 1.
    apply Permutation_app_tail. apply says_partition. apply first_none_prefix.
  Qed.

  (* R1: retain with a panicking closure, on a table that satisfies the safety invariant *)
  Theorem retain_panic_valid t pred bump : SAFE t ->
    exists t',
      m_retain_p B needs_drop t pred bump =
        Ok (t', (if first_none pred (occupants kv t) <? length (occupants kv t) then OutUnwind else OutUnit),
            ev_drops needs_drop (retain_dropped pred bump (occupants kv t))) /\
      SAFE t' /\ mask t' = mask t /\
      (forall tsize talign, TOwn B kv tsize talign t -> TOwn B kv tsize talign t') /\
      Permutation (occupants kv t') (retain_kept pred bump (occupants kv t)) /\
      (first_none pred (occupants kv t) < length (occupants kv t) <->
       exists e, In e (occupants kv t) /\ pred e = None).
  Proof.
    intros Hs.
    destruct (retain_panic_gen (fun _ => True) (fun _ _ _ _ _ _ _ _ _ _ _ => I) (fun _ _ _ _ _ _ _ _ _ _ => I)
                t pred bump Hs I) as (t' & E & Hs' & _ & Em & Hp).
    exists t'. split; [exact E|]. split; [exact Hs'|]. split; [exact Em|].
    split; [intros tsize talign; exact (TOwn_same_mask B kv tsize talign t t' Em)|].
    split; [exact Hp|apply first_none_lt_iff].
  Qed.

  (* R2: the same for the full invariant, for any hash function of the key (it need not be
     total: retain never hashes) *)
  Theorem retain_panic_valid_WF (hash_of : Z -> option Z) t pred bump : WF B kv (hasher hash_of) t ->
    exists t',
      m_retain_p B needs_drop t pred bump =
        Ok (t', (if first_none pred (occupants kv t) <? length (occupants kv t) then OutUnwind else OutUnit),
            ev_drops needs_drop (retain_dropped pred bump (occupants kv t))) /\
      WF B kv (hasher hash_of) t' /\ mask t' = mask t /\
      (forall tsize talign, TOwn B kv tsize talign t -> TOwn B kv tsize talign t') /\
      Permutation (occupants kv t') (retain_kept pred bump (occupants kv t)) /\
      (first_none pred (occupants kv t) < length (occupants kv t) <->
       exists e, In e (occupants kv t) /\ pred e = None).
  Proof.
    intros HWF. pose proof HWF as (Hs & _).
    destruct (retain_panic_gen (WF B kv (hasher hash_of))) with (t := t) (pred := pred) (bump := bump)
      as (t' & E & Hs' & HWF' & Em & Hp); [| |exact Hs|exact HWF|].
    - intros t0 i e v t0' _ HWF0 Hm Hi He Ew.
      destruct (slot_write_WF B kv (hasher hash_of) t0 i e (upd_val e v) HWF0 Hm Hi He eq_refl)
        as (t1 & Ew1 & HWF1 & _).
      rewrite Ew in Ew1. injection Ew1 as <-. exact HWF1.
    - intros t0 i e t0' _ HWF0 Hm Hi Hf Er.
      destruct (remove_WF B kv HW HB (hasher hash_of) t0 i HWF0 Hm Hi Hf) as (e1 & t1 & Er1 & HWF1 & _).
      rewrite Er in Er1. injection Er1 as <- <-. exact HWF1.
    - exists t'. split; [exact E|]. split; [exact HWF'|]. split; [exact Em|].
      split; [intros tsize talign; exact (TOwn_same_mask B kv tsize talign t t' Em)|].
      split; [exact Hp|apply first_none_lt_iff].
  Qed.

  (* when the closure never panics the loop is HashMap::retain of Model/Map.v: nothing unwinds,
     every element was visited *)
  Lemma retain_no_panic pred (es : list kv) : (forall e, In e es -> pred e <> None) ->
    (first_none pred es <? length es) = false /\ firstn (first_none pred es) es = es /\ skipn (first_none pred es) es = [].
  Proof.
    intros H. rewrite (first_none_total pred es H).
    split; [apply Nat.ltb_irrefl|]. split; [apply firstn_all|apply skipn_all].
  Qed.
End RetainMain.

(* ---------------------------------------------------------------------------------------- *)
(* Part 3: extract_if                                                                         *)
(* ---------------------------------------------------------------------------------------- *)
(* What `extract_if(sel).take(n)` does to the elements es it would visit (iteration order), when
   sel may panic: the elements yielded (moved out), the elements left in the table, and whether
   a call of the closure panicked.  The closure only reads: nothing is modified in place. *)
Fixpoint ext_taken (sel : kv -> option bool) (es : list kv) (n : nat) : list kv :=
  match es, n with
  | e :: r, S n' =>
      match sel e with
      | Some true => e :: ext_taken sel r n'
      | Some false => ext_taken sel r n
      | None => []
      end
  | _, _ => []
  end.

Fixpoint ext_left (sel : kv -> option bool) (es : list kv) (n : nat) : list kv :=
  match es, n with
  | e :: r, S n' =>
      match sel e with
      | Some true => ext_left sel r n'
      | Some false => e :: ext_left sel r n
      | None => e :: r
      end
  | _, _ => es
  end.

Fixpoint ext_unw (sel : kv -> option bool) (es : list kv) (n : nat) : bool :=
  match es, n with
  | e :: r, S n' =>
      match sel e with
      | Some true => ext_unw sel r n'
      | Some false => ext_unw sel r n
      | None => true
      end
  | _, _ => false
  end.

Lemma ext_taken_0 sel es : ext_taken sel es 0 = [].
Proof. destruct es; reflexivity. Qed.
Lemma ext_left_0 sel es : ext_left sel es 0 = es.
Proof. destruct es; reflexivity. Qed.
Lemma ext_unw_0 sel es : ext_unw sel es 0 = false.
Proof. destruct es; reflexivity. Qed.

(* every element is yielded or left, exactly once *)
Lemma ext_partition sel : forall es n, Permutation es (ext_taken sel es n ++ ext_left sel es n).
Proof.
  induction es as [|e r IH]; intros n; [destruct n; apply Permutation_refl|].
  destruct n as [|n]; [apply Permutation_refl|].
  cbn [ext_taken ext_left]. destruct (sel e) as [[|]|].
  - cbn [app]. apply perm_skip. apply IH.
  - apply Permutation_cons_app. apply IH.
  - apply Permutation_refl.
Qed.

Lemma ext_taken_sel sel : forall es n, Forall (fun e => sel e = Some true) (ext_taken sel es n).
Proof.
  induction es as [|e r IH]; intros n; [destruct n; constructor|].
  destruct n as [|n]; [constructor|].
  cbn [ext_taken]. destruct (sel e) as [[|]|] eqn:E; [|apply IH|constructor].
  constructor; [exact E|apply IH].
Qed.

Lemma ext_taken_len sel : forall es n, length (ext_taken sel es n) <= n.
Proof.
  induction es as [|e r IH]; intros n; [destruct n; cbn [ext_taken length]; lia|].
  destruct n as [|n]; [cbn [ext_taken length]; lia|].
  cbn [ext_taken]. destruct (sel e) as [[|]|]; cbn [length].
  - specialize (IH n). lia.
  - exact (IH (S n)).
  - lia.
Qed.

(* a panic is the panic of the closure on an element that is still stored afterwards *)
Lemma ext_unw_culprit sel : forall es n, ext_unw sel es n = true ->
  exists e, In e (ext_left sel es n) /\ sel e = None.
Proof.
  induction es as [|e r IH]; intros n H; [destruct n; discriminate H|].
  destruct n as [|n]; [discriminate H|].
  cbn [ext_unw ext_left] in *. destruct (sel e) as [[|]|] eqn:E.
  - exact (IH n H).
  - destruct (IH (S n) H) as (x & Hx & Hp). exists x. split; [right; exact Hx|exact Hp].
  - exists e. split; [left; reflexivity|exact E].
Qed.

(* without a panic the iterator stopped because n elements were taken, or it ran to the end:
   then nothing selected is left *)
Lemma ext_done sel : forall es n, ext_unw sel es n = false ->
  length (ext_taken sel es n) = n \/ Forall (fun e => sel e = Some false) (ext_left sel es n).
Proof.
  induction es as [|e r IH]; intros n H; [right; destruct n; constructor|].
  destruct n as [|n]; [left; reflexivity|].
  cbn [ext_unw ext_left ext_taken] in *. destruct (sel e) as [[|]|] eqn:E.
  - destruct (IH n H) as [Hl|Hf]; [left; cbn [length]; lia|right; exact Hf].
  - destruct (IH (S n) H) as [Hl|Hf]; [left; exact Hl|right; constructor; [exact E|exact Hf]].
  - discriminate H.
Qed.

Lemma ext_no_panic sel es n : (forall e, In e es -> sel e <> None) -> ext_unw sel es n = false.
Proof.
  intros H. destruct (ext_unw sel es n) eqn:E; [|reflexivity]. exfalso.
  destruct (ext_unw_culprit sel es n E) as (e & He & Hp). apply (H e); [|exact Hp].
  apply (Permutation_in e (Permutation_sym (ext_partition sel es n))). apply in_or_app. right. exact He.
Qed.

Section ExtractIf.
  Variable B : backend.
  Hypothesis HW : WidthOK B.
  Hypothesis HB : BackendSpec B.

  Local Notation SAFE := (SafeWF B kv).
  Local Notation LINV := (LoopInv B).
  Local Notation XLOOP := (extract_loop_p B).

  (* the loop with a closure that never panics is Map.extract_loop *)
  Lemma extract_loop_p_total sel : forall fuel t it n acc evs,
    XLOOP fuel t it (fun e => Some (existsb (Z.eqb (k_id e)) sel)) n acc evs =
    match extract_loop B fuel t it sel n acc evs with
    | Ok (t', acc', evs') => Ok (t', acc', evs', false)
    | Fail er => Fail er
    end.
  Proof.
    induction fuel as [|fu IH]; intros t it n acc evs.
    { destruct n; reflexivity. }
    destruct n as [|n]; [reflexivity|].
    cbn [extract_loop extract_loop_p].
    destruct (iter_next B kv t it) as [[[i|] it']|er]; cbn [bind]; try reflexivity.
    destruct (slot_ref kv t i) as [e|er]; cbn [bind]; [|reflexivity].
    destruct (existsb (Z.eqb (k_id e)) sel); [|apply IH].
    destruct (Raw.remove B kv t i) as [[e' t1]|er]; cbn [bind]; [apply IH|reflexivity].
  Qed.

  Section WithQ.
    Variable Q : table kv -> Prop.
    Hypothesis Q_remove : forall t i e t', SAFE t -> Q t -> mask t <> 0 -> i < nb kv t ->
      is_full (byte kv t i) = true -> Raw.remove B kv t i = Ok (e, t') -> Q t'.
    Variable sel : kv -> option bool.

    Lemma extract_p_ok : forall fuel t it P n acc evs others,
      LINV t it P -> length P < fuel -> Q t ->
      Permutation (occupants kv t) (others ++ elems t P) ->
      exists t',
        XLOOP fuel t it sel n acc evs =
          Ok (t', acc ++ ext_taken sel (elems t P) n, evs ++ map EvMoveOut (ext_taken sel (elems t P) n),
              ext_unw sel (elems t P) n) /\
        SAFE t' /\ Q t' /\ mask t' = mask t /\
        Permutation (occupants kv t') (others ++ ext_left sel (elems t P) n).
    Proof.
      induction fuel as [|fu IH]; intros t it P n acc evs others HI Hlen HQ Hocc; [lia|].
      destruct n as [|n].
      { cbn [extract_loop_p]. rewrite ext_taken_0, ext_left_0, ext_unw_0. cbn [map]. rewrite !app_nil_r.
        exists t. destruct HI as (Hs & _). split; [reflexivity|]. split; [exact Hs|]. split; [exact HQ|].
        split; [reflexivity|exact Hocc]. }
      cbn [extract_loop_p]. destruct P as [|x rest].
      - rewrite (LoopInv_nil B t it HI). cbn [bind]. exists t. destruct HI as (Hs & _).
        unfold elems in *. cbn [flat_map ext_taken ext_left ext_unw map] in *. rewrite !app_nil_r in *.
        split; [reflexivity|]. split; [exact Hs|]. split; [exact HQ|]. split; [reflexivity|].
        exact Hocc.
      - destruct (LoopInv_step B HW HB t it x rest HI) as (it' & En & Hx & Hfx & Hm & Hnext).
        rewrite En. cbn [bind]. pose proof HI as (Hs & _).
        destruct (full_slot_ref B t x Hs Hm Hx Hfx) as (e & He & Eref). rewrite Eref. cbn [bind].
        rewrite (elems_cons t x rest e He) in *. cbn [ext_taken ext_left ext_unw].
        cbn [length] in Hlen.
        destruct (sel e) as [[|]|] eqn:Esel.
        + destruct (remove_safe B kv HW t x Hs Hm Hx Hfx)
            as (e2 & t2 & Er & He2 & Hs2 & Em2 & _ & _ & _ & Hb2 & Hperm2 & _).
          rewrite He in He2. injection He2 as <-.
          rewrite Er. cbn [bind].
          assert (HQ2 : Q t2) by exact (Q_remove t x e t2 Hs HQ Hm Hx Hfx Er).
          assert (HI2 : LINV t2 it' rest).
          { apply (Hnext t2 Hs2 Em2). intros j Hj Hne. exact (proj1 (Hb2 j Hj Hne)). }
          assert (Erest2 : elems t2 rest = elems t rest).
          { apply elems_ext. intros j Hj. destruct (loop_rest_lt B t it x rest j HI Hj) as (Hj1 & Hj2).
            exact (proj2 (Hb2 j Hj1 Hj2)). }
          assert (K2 : Permutation (occupants kv t2) (others ++ elems t2 rest)).
          { rewrite Erest2. apply (Permutation_cons_inv (a := e)).
            etransitivity; [symmetry; exact Hperm2|]. etransitivity; [exact Hocc|].
            symmetry. apply Permutation_middle. }
          destruct (IH t2 it' rest n (acc ++ [e]) (evs ++ [EvMoveOut e]) others HI2 ltac:(lia) HQ2 K2)
            as (t' & E & Hs' & HQ' & Em' & Hp').
          exists t'. rewrite Erest2 in E, Hp'.
          split; [|split; [exact Hs'|split; [exact HQ'|split; [congruence|exact Hp']]]].
          rewrite E. cbn [map]. rewrite <- !app_assoc. reflexivity.
        + destruct (IH t it' rest (S n) acc evs (others ++ [e])
                      (Hnext t Hs eq_refl (fun j _ _ => eq_refl)) ltac:(lia) HQ
                      ltac:(rewrite <- app_assoc; exact Hocc))
            as (t' & E & Hs' & HQ' & Em' & Hp').
          exists t'. split; [exact E|]. split; [exact Hs'|]. split; [exact HQ'|]. split; [exact Em'|].
          rewrite <- app_assoc in Hp'. exact Hp'.
        + exists t. cbn [map]. rewrite !app_nil_r.
          split; [reflexivity|]. split; [exact Hs|]. split; [exact HQ|]. split; [reflexivity|exact Hocc].
    Qed.

    Lemma extract_panic_gen t n : SAFE t -> Q t ->
      exists it t',
        iter_new B kv t = Ok it /\
        XLOOP (S (buckets kv t)) t it sel n [] [] =
          Ok (t', ext_taken sel (occupants kv t) n, map EvMoveOut (ext_taken sel (occupants kv t) n),
              ext_unw sel (occupants kv t) n) /\
        SAFE t' /\ Q t' /\ mask t' = mask t /\
        Permutation (occupants kv t') (ext_left sel (occupants kv t) n).
    Proof.
      intros Hs HQ.
      destruct (LoopInv_init B HW HB t Hs) as (it & En & HI).
      assert (Hlen : length (full_list t) < S (buckets kv t)).
      { pose proof (full_list_le kv t). unfold nb in *. lia. }
      assert (Hocc0 : Permutation (occupants kv t) ([] ++ elems t (full_list t))).
      { cbn [app]. rewrite (elems_full B HW t Hs). apply Permutation_refl. }
      destruct (extract_p_ok _ t it (full_list t) n [] [] [] HI Hlen HQ Hocc0) as (t' & E & Hs' & HQ' & Em' & Hp').
      rewrite (elems_full B HW t Hs) in *. cbn [app] in *.
      exists it, t'. split; [exact En|]. split; [exact E|]. split; [exact Hs'|]. split; [exact HQ'|].
      split; [exact Em'|exact Hp'].
    Qed.
  End WithQ.

  (* X1: extract_if with a panicking closure on a table that satisfies the safety invariant.
     es = the old contents in iteration order. *)
  Theorem extract_panic_valid t sel n : SAFE t ->
    exists it t',
      iter_new B kv t = Ok it /\
      extract_loop_p B (S (buckets kv t)) t it sel n [] [] =
        Ok (t', ext_taken sel (occupants kv t) n, map EvMoveOut (ext_taken sel (occupants kv t) n),
            ext_unw sel (occupants kv t) n) /\
      SAFE t' /\ mask t' = mask t /\
      (forall tsize talign, TOwn B kv tsize talign t -> TOwn B kv tsize talign t') /\
      Permutation (occupants kv t) (ext_taken sel (occupants kv t) n ++ occupants kv t') /\
      Forall (fun e => sel e = Some true) (ext_taken sel (occupants kv t) n) /\
      length (ext_taken sel (occupants kv t) n) <= n /\
      (ext_unw sel (occupants kv t) n = true -> exists e, In e (occupants kv t') /\ sel e = None) /\
      (ext_unw sel (occupants kv t) n = false ->
         length (ext_taken sel (occupants kv t) n) = n \/ Forall (fun e => sel e = Some false) (occupants kv t')).
  Proof.
    intros Hs.
    destruct (extract_panic_gen (fun _ => True) (fun _ _ _ _ _ _ _ _ _ _ => I) sel t n Hs I)
      as (it & t' & En & E & Hs' & _ & Em & Hp).
    exists it, t'. split; [exact En|]. split; [exact E|]. split; [exact Hs'|]. split; [exact Em|].
    split; [intros tsize talign; exact (TOwn_same_mask B kv tsize talign t t' Em)|].
    split; [|split; [apply ext_taken_sel|split; [apply ext_taken_len|split]]].
    - etransitivity; [apply (ext_partition sel (occupants kv t) n)|].
      apply Permutation_app_head. symmetry. exact Hp.
    - intros Hu. destruct (ext_unw_culprit sel _ n Hu) as (e & He & Hpe). exists e.
      split; [exact (Permutation_in e (Permutation_sym Hp) He)|exact Hpe].
    - intros Hu. destruct (ext_done sel _ n Hu) as [Hl|Hf]; [left; exact Hl|right].
      exact (Forall_perm _ _ _ (Permutation_sym Hp) Hf).
  Qed.

  (* X2: the same for the full invariant (any hash function of the key) *)
  Theorem extract_panic_valid_WF (hash_of : Z -> option Z) t sel n : WF B kv (hasher hash_of) t ->
    exists it t',
      iter_new B kv t = Ok it /\
      extract_loop_p B (S (buckets kv t)) t it sel n [] [] =
        Ok (t', ext_taken sel (occupants kv t) n, map EvMoveOut (ext_taken sel (occupants kv t) n),
            ext_unw sel (occupants kv t) n) /\
      WF B kv (hasher hash_of) t' /\ mask t' = mask t /\
      (forall tsize talign, TOwn B kv tsize talign t -> TOwn B kv tsize talign t') /\
      Permutation (occupants kv t) (ext_taken sel (occupants kv t) n ++ occupants kv t').
  Proof.
    intros HWF. pose proof HWF as (Hs & _).
    destruct (extract_panic_gen (WF B kv (hasher hash_of))) with (sel := sel) (t := t) (n := n)
      as (it & t' & En & E & Hs' & HWF' & Em & Hp); [|exact Hs|exact HWF|].
    - intros t0 i e t0' _ HWF0 Hm Hi Hf Er.
      destruct (remove_WF B kv HW HB (hasher hash_of) t0 i HWF0 Hm Hi Hf) as (e1 & t1 & Er1 & HWF1 & _).
      rewrite Er in Er1. injection Er1 as <- <-. exact HWF1.
    - exists it, t'. split; [exact En|]. split; [exact E|]. split; [exact HWF'|]. split; [exact Em|].
      split; [intros tsize talign; exact (TOwn_same_mask B kv tsize talign t t' Em)|].
      etransitivity; [apply (ext_partition sel (occupants kv t) n)|].
      apply Permutation_app_head. symmetry. exact Hp.
  Qed.
End ExtractIf.

(* ---------------------------------------------------------------------------------------- *)
(* Non-vacuity: concrete runs (SSE2 backend, 8 buckets, six elements inserted by map_step)    *)
(* ---------------------------------------------------------------------------------------- *)
Definition ex_ops : list (map_op * bool) :=
  [(OpInsert 11 0 100, false); (OpInsert 12 0 200, false); (OpInsert 13 0 300, false);
   (OpInsert 14 0 400, false); (OpInsert 15 0 500, false); (OpInsert 16 0 600, false)]%Z.

(* the closure panics on key 12 -- the third element visited --, keeps even keys *)
Definition ex_pred (e : kv) : option bool := if (k_id e =? 12)%Z then None else Some (Z.even (k_id e)).

(* retain: 16 was visited and kept (value bumped), 11 was visited, erased and dropped (value
   bumped), the closure panicked on 12: 12, 13, 14, 15 are untouched; the table is valid *)
Example retain_panic_example :
  match run sse2_backend 24 8 true (fun k => Some k) (new_table sse2_backend kv) ex_ops with
  | Ok t =>
      occupants kv t = [mkKV 16 0 600; mkKV 11 0 100; mkKV 12 0 200; mkKV 13 0 300; mkKV 14 0 400; mkKV 15 0 500] /\
      first_none ex_pred (occupants kv t) = 2 /\
      match m_retain_p sse2_backend true t ex_pred 5 with
      | Ok (t', o, evs) =>
          o = OutUnwind /\ evs = [EvDrop (mkKV 11 0 105)] /\
          occupants kv t' = [mkKV 16 0 605; mkKV 12 0 200; mkKV 13 0 300; mkKV 14 0 400; mkKV 15 0 500] /\
          safe_wf_check sse2_backend kv t' = true /\
          wf_check sse2_backend kv (fun e => Some (k_id e)) t' = true /\ items t' = 5%Z
      | Fail _ => False
      end
  | Fail _ => False
  end.
Proof. vm_compute. repeat split. Qed.

(* extract_if(...).take(4): 16 is yielded, 11 is skipped, the closure panics on 12 *)
Example extract_if_panic_example :
  match run sse2_backend 24 8 true (fun k => Some k) (new_table sse2_backend kv) ex_ops with
  | Ok t =>
      match iter_new sse2_backend kv t with
      | Ok it =>
          match extract_loop_p sse2_backend (S (buckets kv t)) t it ex_pred 4 [] [] with
          | Ok (t', acc, evs, unw) =>
              unw = true /\ acc = [mkKV 16 0 600] /\ evs = [EvMoveOut (mkKV 16 0 600)] /\
              occupants kv t' = [mkKV 11 0 100; mkKV 12 0 200; mkKV 13 0 300; mkKV 14 0 400; mkKV 15 0 500] /\
              safe_wf_check sse2_backend kv t' = true /\
              wf_check sse2_backend kv (fun e => Some (k_id e)) t' = true /\ items t' = 5%Z
          | Fail _ => False
          end
      | Fail _ => False
      end
  | Fail _ => False
  end.
Proof. vm_compute. repeat split. Qed.

Print Assumptions find_panicky_total.
Print Assumptions foi_panicky_total.
Print Assumptions find_or_find_insert_slot_c_spec.
Print Assumptions insert_eq_panic_state.
Print Assumptions retain_panic_valid.
Print Assumptions retain_panic_valid_WF.
Print Assumptions extract_panic_valid.
Print Assumptions extract_panic_valid_WF.
Print Assumptions retain_panic_example.
Print Assumptions extract_if_panic_example.
