(* MapRefineLoops.v -- the two loops of HashMap that mutate the table while a RawIter is live
   (retain, extract_if), refined against the reference map.  The iterator-under-erasure invariant
   LoopInv is the one of Proofs/MapStepSafe.v; here the full invariant WF (for a total hasher) and
   the abstract contents are carried along.  No axioms. *)
From Coq Require Import ZArith List Bool Lia Permutation.
From HB Require Import RsPrelude Sse2 Gen Group Raw Map Check AssocSpec ArithFacts WFDefs GroupFacts ProbeFacts
  IterFacts SafeInsertErase SafeAllocClear FindFacts ResizeFacts WFInsertRemove RawOpsSafe RawOpsWF
  MapDefs AssocFacts MapRefineBase MapStepSafe.
Import ListNotations.
Open Scope nat_scope.

(* ---------------------------------------------------------------------------------------- *)
(* list facts                                                                                 *)
(* ---------------------------------------------------------------------------------------- *)
Lemma perm_filter {A} (p : A -> bool) (l l' : list A) : Permutation l l' -> Permutation (filter p l) (filter p l').
Proof.
  induction 1 as [|x l l' _ IH|x y l|l l' l'' _ IH1 _ IH2]; cbn [filter].
  - apply Permutation_refl.
  - destruct (p x); [apply perm_skip|]; exact IH.
  - destruct (p x), (p y); try apply Permutation_refl. apply perm_swap.
  - etransitivity; eassumption.
Qed.

Lemma filter_all_true {A} (p : A -> bool) (l : list A) : Forall (fun x => p x = true) l -> filter p l = l.
Proof.
  induction 1 as [|x l Hx _ IH]; cbn [filter]; [reflexivity|]. rewrite Hx, IH. reflexivity.
Qed.

Lemma filter_none {A} (p : A -> bool) (l : list A) : Forall (fun x => p x = false) l -> filter p l = [].
Proof.
  induction 1 as [|x l Hx _ IH]; cbn [filter]; [reflexivity|]. rewrite Hx. exact IH.
Qed.

Lemma Forall_perm {A} (Q : A -> Prop) (l l' : list A) : Permutation l l' -> Forall Q l -> Forall Q l'.
Proof.
  intros P H. apply Forall_forall. intros x Hx. rewrite Forall_forall in H. apply H.
  exact (Permutation_in _ (Permutation_sym P) Hx).
Qed.

Lemma filter_keys_NoDup (p : kv -> bool) (s : list kv) : NoDup (map k_id s) -> NoDup (map k_id (filter p s)).
Proof.
  induction s as [|e r IH]; cbn [filter map]; [intros H; exact H|].
  intros H. inversion H as [|? ? Hn Hr]; subst. destruct (p e); [|exact (IH Hr)].
  cbn [map]. constructor; [|exact (IH Hr)]. intros Hin. apply Hn.
  apply in_map_iff in Hin. destruct Hin as (x & Ex & Hx). apply filter_In in Hx.
  apply in_map_iff. exists x. split; [exact Ex|exact (proj1 Hx)].
Qed.

(* what retain does to one element *)
Definition retain_f (keep : list Z) (bump : Z) (e : kv) : list kv :=
  if existsb (Z.eqb (k_id e)) keep then [mkKV (k_id e) (k_stamp e) (wadd 64 (v_val e) bump)] else [].

Lemma retain_keys_incl keep bump (s : list kv) x :
  In x (map k_id (flat_map (retain_f keep bump) s)) -> In x (map k_id s).
Proof.
  induction s as [|e r IH]; cbn [flat_map map]; [intros []|].
  rewrite map_app, in_app_iff. intros [H|H]; [|right; exact (IH H)].
  unfold retain_f in H. destruct (existsb (Z.eqb (k_id e)) keep); [|destruct H].
  destruct H as [<-|[]]. left. reflexivity.
Qed.

Lemma retain_keys_NoDup keep bump (s : list kv) :
  NoDup (map k_id s) -> NoDup (map k_id (flat_map (retain_f keep bump) s)).
Proof.
  induction s as [|e r IH]; cbn [flat_map map]; [intros H; exact H|].
  intros H. inversion H as [|? ? Hn Hr]; subst. rewrite map_app.
  unfold retain_f at 1. destruct (existsb (Z.eqb (k_id e)) keep); cbn [map app]; [|exact (IH Hr)].
  constructor; [|exact (IH Hr)]. intros Hin. apply Hn. exact (retain_keys_incl keep bump r _ Hin).
Qed.

Section Loops.
  Variable B : backend.
  Hypothesis HW : WidthOK B.
  Hypothesis HB : BackendSpec B.
  Variable tsize talign : Z.
  Hypothesis HL : LayoutOK tsize talign.
  Variable needs_drop : bool.
  Variable hash_of : Z -> option Z.
  Hypothesis Htot : TotalHash hash_of.

  Local Notation h := (hasher hash_of).
  Local Notation OWN := (TOwn B kv tsize talign).
  Local Notation INV := (Inv B tsize talign hash_of).
  Local Notation LINV := (LoopInv B).

  (* the elements held by the buckets P *)
  Definition elems (t : table kv) (P : list nat) : list kv :=
    flat_map (fun i => SafeAllocClear.opt_list (nth i (slots t) None)) P.

  Lemma elems_ext (t t' : table kv) P : (forall j, In j P -> slot kv t' j = slot kv t j) -> elems t' P = elems t P.
  Proof.
    induction P as [|x r IH]; intros H; [reflexivity|]. unfold elems in *. cbn [flat_map].
    change (nth x (slots t') None) with (slot kv t' x). rewrite (H x (or_introl eq_refl)).
    rewrite IH by (intros j Hj; apply H; right; exact Hj). reflexivity.
  Qed.

  Lemma elems_cons (t : table kv) x rest e : slot kv t x = Some e -> elems t (x :: rest) = e :: elems t rest.
  Proof.
    intros He. unfold elems. cbn [flat_map]. change (nth x (slots t) None) with (slot kv t x).
    rewrite He. reflexivity.
  Qed.

  Lemma elems_full t : SafeWF B kv t -> elems t (full_list t) = occupants kv t.
  Proof. intros Hs. symmetry. exact (occupants_full_list B kv HW t Hs). Qed.

  Lemma loop_head t it x rest : LINV t it (x :: rest) -> ~ In x rest.
  Proof. intros (_ & _ & Hnd & _). inversion Hnd; assumption. Qed.

  Lemma loop_rest_lt t it x rest j : LINV t it (x :: rest) -> In j rest -> j < nb kv t /\ j <> x.
  Proof.
    intros HI Hj. pose proof (loop_head t it x rest HI) as Hn. destruct HI as (_ & _ & _ & Hfull).
    split; [exact (proj1 (Hfull j (or_intror Hj)))|]. intros ->. contradiction.
  Qed.

  (* ---------------------------------------------------------------------------------------- *)
  (* retain                                                                                     *)
  (* ---------------------------------------------------------------------------------------- *)
  Lemma retain_loop_ref keep bump (s0 : list kv) : forall fuel t it P evs done t' evs',
    LINV t it P -> length P < fuel -> WF B kv h t -> OWN t ->
    Permutation s0 (done ++ elems t P) ->
    Permutation (occupants kv t) (flat_map (retain_f keep bump) done ++ elems t P) ->
    retain_loop B needs_drop fuel t it keep bump evs = Ok (t', evs') ->
    WF B kv h t' /\ OWN t' /\ Permutation (occupants kv t') (flat_map (retain_f keep bump) s0).
  Proof.
    induction fuel as [|f IH]; intros t it P evs done t' evs' HI Hlen HWF HA Hs0 Hocc E; [lia|].
    cbn [retain_loop] in E. destruct P as [|x rest].
    - rewrite (LoopInv_nil B t it HI) in E. cbn [bind] in E. injection E as <- <-.
      split; [exact HWF|]. split; [exact HA|].
      cbn [elems flat_map] in *. unfold elems in *. cbn [flat_map] in *. rewrite app_nil_r in *.
      etransitivity; [exact Hocc|]. apply Permutation_flat_map. symmetry. exact Hs0.
    - destruct (LoopInv_step B HW HB t it x rest HI) as (it' & En & Hx & Hfx & Hm & Hnext).
      rewrite En in E. cbn [bind] in E. pose proof HWF as (Hs & _).
      destruct (SafeWF_alloc B kv t Hs Hm) as (_ & _ & HC).
      destruct (full_slot_some kv t x HC Hx Hfx) as (e & He).
      rewrite (slot_ref_some B t x e Hs Hm Hx He) in E. cbn [bind] in E. cbv zeta in E.
      set (e' := mkKV (k_id e) (k_stamp e) (wadd 64 (v_val e) bump)) in *.
      destruct (slot_write_WF B kv h t x e e' HWF Hm Hx He eq_refl)
        as (t1 & Ew & HWF1 & Em1 & _ & _ & _ & Hb1 & Hsx1 & Hso1 & _ & Hperm1).
      rewrite Ew in E. cbn [bind] in E. cbn [length] in Hlen.
      pose proof HWF1 as (Hs1 & _).
      assert (HA1 : OWN t1) by exact (TOwn_same_mask B kv tsize talign t t1 Em1 HA).
      assert (Erest1 : elems t1 rest = elems t rest).
      { apply elems_ext. intros j Hj. apply Hso1. exact (proj2 (loop_rest_lt t it x rest j HI Hj)). }
      rewrite (elems_cons t x rest e He) in Hs0, Hocc.
      (* the contents after the value update *)
      assert (K : Permutation (occupants kv t1) (flat_map (retain_f keep bump) done ++ e' :: elems t rest)).
      { apply (Permutation_cons_inv (a := e)).
        etransitivity; [exact Hperm1|].
        etransitivity; [apply perm_skip; exact Hocc|].
        etransitivity; [apply perm_skip; symmetry; apply Permutation_middle|].
        etransitivity; [apply perm_swap|].
        apply perm_skip. apply Permutation_middle. }
      assert (Hs0' : Permutation s0 ((done ++ [e]) ++ elems t rest)).
      { rewrite <- app_assoc. exact Hs0. }
      assert (HI1 : LINV t1 it' rest) by exact (Hnext t1 Hs1 Em1 (fun j _ _ => Hb1 j)).
      destruct (existsb (Z.eqb (k_id e)) keep) eqn:Ek.
      + apply (IH t1 it' rest evs (done ++ [e]) t' evs' HI1 ltac:(lia) HWF1 HA1); [| |exact E].
        * rewrite Erest1. exact Hs0'.
        * rewrite Erest1, flat_map_app. cbn [flat_map]. unfold retain_f at 2. rewrite Ek.
          cbn [app]. rewrite <- app_assoc. exact K.
      + unfold erase_drop in E.
        assert (Hm1 : mask t1 <> 0) by congruence.
        assert (Enb1 : nb kv t1 = nb kv t) by (unfold nb, buckets; rewrite Em1; reflexivity).
        assert (Hfx1 : is_full (byte kv t1 x) = true) by (rewrite Hb1; exact Hfx).
        destruct (remove_WF B kv HW HB h t1 x HWF1 Hm1 ltac:(rewrite Enb1; exact Hx) Hfx1)
          as (e2 & t2 & Er & HWF2 & He2 & Em2 & _ & _ & _ & Hother2 & Hperm2 & _).
        rewrite Hsx1 in He2. injection He2 as <-.
        rewrite Er in E. cbn [bind] in E. pose proof HWF2 as (Hs2 & _).
        assert (HA2 : OWN t2) by exact (TOwn_same_mask B kv tsize talign t1 t2 Em2 HA1).
        assert (HI2 : LINV t2 it' rest).
        { apply (Hnext t2 Hs2); [congruence|]. intros j Hj Hne.
          rewrite (proj1 (Hother2 j ltac:(rewrite Enb1; exact Hj) Hne)). apply Hb1. }
        assert (Erest2 : elems t2 rest = elems t rest).
        { rewrite <- Erest1. apply elems_ext. intros j Hj.
          destruct (loop_rest_lt t it x rest j HI Hj) as (Hj1 & Hj2).
          exact (proj2 (Hother2 j ltac:(rewrite Enb1; exact Hj1) Hj2)). }
        eapply (IH t2 it' rest _ (done ++ [e]) t' evs' HI2 ltac:(lia) HWF2 HA2); [| |exact E].
        * rewrite Erest2. exact Hs0'.
        * rewrite Erest2, flat_map_app. cbn [flat_map]. unfold retain_f at 2. rewrite Ek.
          cbn [app]. rewrite app_nil_r.
          apply (Permutation_cons_inv (a := e')).
          etransitivity; [symmetry; exact Hperm2|]. etransitivity; [exact K|].
          symmetry. apply Permutation_middle.
  Qed.

  Theorem retain_refines t s keep bump it t' evs' : INV t s -> iter_new B kv t = Ok it ->
    retain_loop B needs_drop (S (buckets kv t)) t it keep bump [] = Ok (t', evs') ->
    INV t' (flat_map (retain_f keep bump) s).
  Proof.
    intros (HWF & HA & (P & Hnd)) En E. pose proof HWF as (Hs & _).
    destruct (LoopInv_init B HW HB t Hs) as (it0 & En0 & HI). rewrite En in En0. injection En0 as <-.
    assert (Hlen : length (full_list t) < S (buckets kv t)).
    { pose proof (full_list_le kv t). unfold nb in *. lia. }
    destruct (retain_loop_ref keep bump (occupants kv t) _ t it (full_list t) [] [] t' evs' HI Hlen HWF HA
                ltac:(cbn [app]; rewrite (elems_full t Hs); apply Permutation_refl)
                ltac:(cbn [app flat_map]; rewrite (elems_full t Hs); apply Permutation_refl) E)
      as (HWF' & HA' & P').
    split; [exact HWF'|]. split; [exact HA'|]. split; [|apply retain_keys_NoDup; exact Hnd].
    etransitivity; [exact P'|]. apply Permutation_flat_map. exact P.
  Qed.

  (* ---------------------------------------------------------------------------------------- *)
  (* extract_if                                                                                 *)
  (* ---------------------------------------------------------------------------------------- *)
  Local Notation selb sel := (fun e : kv => existsb (Z.eqb (k_id e)) sel).

  Lemma extract_loop_ref sel n0 (s0 : list kv) : forall fuel t it P n acc evs kept t' acc' evs',
    LINV t it P -> length P < fuel -> WF B kv h t -> OWN t ->
    Permutation (acc ++ occupants kv t) s0 -> Forall (fun e => selb sel e = true) acc ->
    Permutation (occupants kv t) (kept ++ elems t P) -> Forall (fun e => selb sel e = false) kept ->
    length acc + n = n0 ->
    extract_loop B fuel t it sel n acc evs = Ok (t', acc', evs') ->
    WF B kv h t' /\ OWN t' /\ Permutation (acc' ++ occupants kv t') s0 /\
    Forall (fun e => selb sel e = true) acc' /\ length acc' <= n0 /\
    (length acc' = n0 \/ Forall (fun e => selb sel e = false) (occupants kv t')).
  Proof.
    induction fuel as [|f IH]; intros t it P n acc evs kept t' acc' evs' HI Hlen HWF HA H1 H2 H3 H4 H5 E; [lia|].
    destruct n as [|n].
    { cbn [extract_loop] in E. injection E as <- <- <-.
      repeat (split; [assumption || lia|]). left. lia. }
    cbn [extract_loop] in E. destruct P as [|x rest].
    - rewrite (LoopInv_nil B t it HI) in E. cbn [bind] in E. injection E as <- <- <-.
      repeat (split; [assumption || lia|]). right.
      unfold elems in H3. cbn [flat_map] in H3. rewrite app_nil_r in H3.
      exact (Forall_perm _ _ _ (Permutation_sym H3) H4).
    - destruct (LoopInv_step B HW HB t it x rest HI) as (it' & En & Hx & Hfx & Hm & Hnext).
      rewrite En in E. cbn [bind] in E. pose proof HWF as (Hs & _).
      destruct (SafeWF_alloc B kv t Hs Hm) as (_ & _ & HC).
      destruct (full_slot_some kv t x HC Hx Hfx) as (e & He).
      rewrite (slot_ref_some B t x e Hs Hm Hx He) in E. cbn [bind] in E.
      cbn [length] in Hlen. rewrite (elems_cons t x rest e He) in H3.
      destruct (existsb (Z.eqb (k_id e)) sel) eqn:Ek.
      + destruct (remove_WF B kv HW HB h t x HWF Hm Hx Hfx)
          as (e2 & t2 & Er & HWF2 & He2 & Em2 & _ & _ & _ & Hother2 & Hperm2 & _).
        rewrite He in He2. injection He2 as <-.
        rewrite Er in E. cbn [bind] in E. pose proof HWF2 as (Hs2 & _).
        assert (HA2 : OWN t2) by exact (TOwn_same_mask B kv tsize talign t t2 Em2 HA).
        assert (HI2 : LINV t2 it' rest).
        { apply (Hnext t2 Hs2 Em2). intros j Hj Hne. exact (proj1 (Hother2 j Hj Hne)). }
        assert (Erest2 : elems t2 rest = elems t rest).
        { apply elems_ext. intros j Hj. destruct (loop_rest_lt t it x rest j HI Hj) as (Hj1 & Hj2).
          exact (proj2 (Hother2 j Hj1 Hj2)). }
        eapply (IH t2 it' rest n (acc ++ [e]) _ kept t' acc' evs' HI2 ltac:(lia) HWF2 HA2); [| | |exact H4| |exact E].
        * rewrite <- app_assoc. cbn [app]. etransitivity; [|exact H1].
          apply Permutation_app_head. symmetry. exact Hperm2.
        * apply Forall_app. split; [exact H2|]. constructor; [exact Ek|constructor].
        * rewrite Erest2. apply (Permutation_cons_inv (a := e)).
          etransitivity; [symmetry; exact Hperm2|]. etransitivity; [exact H3|].
          symmetry. apply Permutation_middle.
        * rewrite app_length. cbn [length]. lia.
      + apply (IH t it' rest (S n) acc evs (kept ++ [e]) t' acc' evs'
                 (Hnext t Hs eq_refl (fun j _ _ => eq_refl)) ltac:(lia) HWF HA H1 H2); [| |exact H5|exact E].
        * rewrite <- app_assoc. exact H3.
        * apply Forall_app. split; [exact H4|]. constructor; [exact Ek|constructor].
  Qed.

  Theorem extract_refines t s sel n it t' acc evs' : INV t s -> iter_new B kv t = Ok it ->
    extract_loop B (S (buckets kv t)) t it sel n [] [] = Ok (t', acc, evs') ->
    exists s', spec_accepts s (OpExtractIf sel n) (OutList acc) = Some s' /\ INV t' s'.
  Proof.
    intros (HWF & HA & (P & Hnd)) En E. pose proof HWF as (Hs & _).
    destruct (LoopInv_init B HW HB t Hs) as (it0 & En0 & HI). rewrite En in En0. injection En0 as <-.
    assert (Hlen : length (full_list t) < S (buckets kv t)).
    { pose proof (full_list_le kv t). unfold nb in *. lia. }
    destruct (extract_loop_ref sel n s _ t it (full_list t) n [] [] [] t' acc evs' HI Hlen HWF HA
                ltac:(exact P) ltac:(constructor)
                ltac:(cbn [app]; rewrite (elems_full t Hs); apply Permutation_refl)
                ltac:(constructor) ltac:(reflexivity) E)
      as (HWF' & HA' & P' & Hsel & Hle & Hdone).
    (* what is left in the table is what is left of s *)
    destruct (sublist_of_split acc (occupants kv t') s Hnd P') as (s' & Esub & Ps' & Hnd').
    exists s'. split; [|split; [exact HWF'|split; [exact HA'|split; [exact Ps'|exact Hnd']]]].
    cbn [spec_accepts].
    set (selected := filter (fun e : kv => existsb (Z.eqb (k_id e)) sel) s).
    assert (Psel : Permutation (acc ++ filter (selb sel) (occupants kv t')) selected).
    { unfold selected. etransitivity; [|apply perm_filter; exact P'].
      rewrite filter_app, (filter_all_true _ acc Hsel). apply Permutation_refl. }
    assert (Hlen' : length acc = Nat.min n (length selected)).
    { pose proof (Permutation_length Psel) as Hl. rewrite app_length in Hl.
      destruct Hdone as [Hn|Hnone]; [lia|].
      rewrite (filter_none _ _ Hnone) in Hl. cbn [length] in Hl. lia. }
    rewrite Hlen', Nat.eqb_refl.
    destruct (sublist_of_split acc _ selected (filter_keys_NoDup _ s Hnd) Psel) as (s1 & Esub1 & _).
    rewrite Esub1. exact Esub.
  Qed.
End Loops.

Print Assumptions retain_refines.
Print Assumptions extract_refines.
