(* SpecDeterminism.v -- the reference acceptor of HashMap (Spec/AssocSpec.v) is deterministic up
   to the freedom the API leaves.

   `spec_accepts s op o` leaves the implementation freedom in exactly these places:
     - the ORDER of every yielded list (iter, drain, extract_if);
     - WHICH elements a partially consumed drain / extract_if yields (and, for extract_if, which
       therefore remain stored);
     - the numbers answered by capacity() (any n >= len) and allocation_size() (any n), and the
       verdict of try_reserve (Ok / CapacityOverflow / AllocError).
   Everything else -- every return value, the length, the contents after the call -- is a function
   of the contents before the call (as a set of pairs) and of the operation.  Pure list
   reasoning; no table is involved.  Consequence (Properties/C18o.v): two implementations that
   both refine the acceptor are observationally equal on these outputs.  No axioms. *)
From Coq Require Import ZArith List Bool Lia Permutation Arith.
From HB Require Import RsPrelude Sse2 Gen Group Raw Map Check AssocSpec AssocFacts WFDefs MapDefs
  SafeAllocClear RawOpsSafe MapRefineBase MapStepRefine GroupBackends.
Import ListNotations.
Open Scope Z_scope.

(* ---------------------------------------------------------------------------------------- *)
(* D1: definitions                                                                            *)
(* ---------------------------------------------------------------------------------------- *)

(* two outputs are equal, except that yielded lists may come in a different order *)
Definition out_equiv (o1 o2 : out) : Prop :=
  match o1, o2 with
  | OutList l1, OutList l2 => Permutation l1 l2
  | _, _ => o1 = o2
  end.

(* two reference states hold the same pairs (in any order), each key once *)
Definition same_contents (s1 s2 : spec) : Prop := Permutation s1 s2 /\ NoDup (map k_id s1).

(* the elements an extract_if closure `|k, _| sel.contains(k)` selects *)
Definition selected (sel : list Z) (s : spec) : spec :=
  filter (fun e => existsb (Z.eqb (k_id e)) sel) s.

(* l is a sub-multiset of s *)
Definition sub_multiset (l s : list kv) : Prop := exists r, Permutation (l ++ r) s.

(* Operations whose output AND next contents are determined (lists up to order), whatever the
   contents are.  Excluded, and nothing else:
     drain(n)             the yielded list is determined only if it is complete (see order_free_at);
     extract_if(sel, n)   with n < |sel|: may be partial; then output and remaining contents differ;
     try_reserve          the verdict depends on the allocator / on growth_left (tombstones);
     capacity, allocation_size   depend on the bucket count and the group width. *)
Definition order_free (op : map_op) : bool :=
  match op with
  | OpDrain _ | OpTryReserve _ | OpCapacity | OpAllocationSize => false
  | OpExtractIf sel n => (length sel <=? n)%nat
  | _ => true
  end.

(* the same, exactly, relative to the contents s before the call: a drain / extract_if that is
   consumed to the end is determined *)
Definition order_free_at (s : spec) (op : map_op) : bool :=
  match op with
  | OpDrain n => (length s <=? n)%nat
  | OpExtractIf sel n => (length (selected sel s) <=? n)%nat
  | OpTryReserve _ | OpCapacity | OpAllocationSize => false
  | _ => true
  end.

(* operations whose NEXT CONTENTS are determined (the output possibly not): everything except a
   possibly partial extract_if *)
Definition state_det (op : map_op) : bool :=
  match op with OpExtractIf sel n => (length sel <=? n)%nat | _ => true end.

Definition state_det_at (s : spec) (op : map_op) : bool :=
  match op with OpExtractIf sel n => (length (selected sel s) <=? n)%nat | _ => true end.

(* what two accepted outputs of the same operation from the same contents s always share *)
Definition out_sim (s : spec) (op : map_op) (o1 o2 : out) : Prop :=
  match op with
  | OpDrain n =>
      exists l1 l2, o1 = OutList l1 /\ o2 = OutList l2 /\
        length l1 = Nat.min n (length s) /\ length l2 = Nat.min n (length s) /\
        sub_multiset l1 s /\ sub_multiset l2 s
  | OpExtractIf sel n =>
      exists l1 l2, o1 = OutList l1 /\ o2 = OutList l2 /\
        length l1 = Nat.min n (length (selected sel s)) /\
        length l2 = Nat.min n (length (selected sel s)) /\
        sub_multiset l1 (selected sel s) /\ sub_multiset l2 (selected sel s)
  | OpTryReserve _ => exists r1 r2, o1 = OutTry r1 /\ o2 = OutTry r2
  | OpCapacity =>
      exists n1 n2, o1 = OutNum n1 /\ o2 = OutNum n2 /\
        Z.of_nat (length s) <= n1 /\ Z.of_nat (length s) <= n2
  | OpAllocationSize => exists n1 n2, o1 = OutNum n1 /\ o2 = OutNum n2
  | _ => out_equiv o1 o2
  end.

(* the exact condition evaluated along a reference run (computable: use it on concrete
   histories, e.g. to admit a drain that is consumed completely) *)
Fixpoint order_free_run (s : spec) (ops : list map_op) (os : list out) : bool :=
  match ops, os with
  | [], [] => true
  | op :: ops', o :: os' =>
      order_free_at s op &&
      match spec_accepts s op o with Some s' => order_free_run s' ops' os' | None => false end
  | _, _ => false
  end.

(* out_sim along a history, threaded through the reference contents of the first run *)
Fixpoint outs_sim (s : spec) (ops : list map_op) (os1 os2 : list out) : Prop :=
  match ops, os1, os2 with
  | [], [], [] => True
  | op :: ops', o1 :: os1', o2 :: os2' =>
      out_sim s op o1 o2 /\
      match spec_accepts s op o1 with Some s' => outs_sim s' ops' os1' os2' | None => False end
  | _, _, _ => False
  end.

(* ---------------------------------------------------------------------------------------- *)
(* basic facts                                                                                *)
(* ---------------------------------------------------------------------------------------- *)
Lemma out_equiv_refl o : out_equiv o o.
Proof. destruct o; cbn [out_equiv]; reflexivity. Qed.

Lemma out_equiv_sym o1 o2 : out_equiv o1 o2 -> out_equiv o2 o1.
Proof.
  destruct o1, o2; cbn [out_equiv]; intros H; try (symmetry; exact H); try discriminate H.
Qed.

Lemma out_equiv_trans o1 o2 o3 : out_equiv o1 o2 -> out_equiv o2 o3 -> out_equiv o1 o3.
Proof.
  destruct o1, o2; cbn [out_equiv]; intros H; try discriminate H;
    destruct o3; cbn [out_equiv]; intros H'; try discriminate H'; try congruence.
  etransitivity; eassumption.
Qed.

(* on everything that is not a list, out_equiv is equality *)
Lemma out_equiv_eq o1 o2 : (forall l, o1 <> OutList l) -> out_equiv o1 o2 -> o1 = o2.
Proof.
  destruct o1, o2; cbn [out_equiv]; intros Hn H; try exact H. exfalso. exact (Hn l eq_refl).
Qed.

Lemma out_eqb_eq a b : out_eqb a b = true -> a = b.
Proof.
  destruct a, b; cbn [out_eqb]; intros H; try discriminate H; try reflexivity.
  - apply Z.eqb_eq in H. subst. reflexivity.
  - apply andb_prop in H. destruct H as [H1 H2]. apply Z.eqb_eq in H1, H2. subst. reflexivity.
  - apply Bool.eqb_prop in H. subst. reflexivity.
  - apply Z.eqb_eq in H. subst. reflexivity.
  - apply andb_prop in H. destruct H as [H1 H2]. apply Z.eqb_eq in H1, H2. subst. reflexivity.
Qed.

Lemma expect_inv o w s' s'' : expect o w s' = Some s'' -> o = w /\ s'' = s'.
Proof.
  unfold expect. destruct (out_eqb o w) eqn:E; [|discriminate].
  intros H. injection H as <-. split; [exact (out_eqb_eq o w E)|reflexivity].
Qed.

Lemma put_perm s1 s2 e : Permutation s1 s2 -> Permutation (put s1 e) (put s2 e).
Proof. intros P. unfold put. apply perm_skip. apply delete_perm. exact P. Qed.

Lemma insert_like_perm s1 s2 k st v : NoDup (map k_id s1) -> Permutation s1 s2 ->
  Permutation (insert_like s1 k st v) (insert_like s2 k st v).
Proof.
  intros Hnd P. unfold insert_like. rewrite <- (lookup_perm s1 s2 k Hnd P).
  destruct (lookup s1 k); apply put_perm; exact P.
Qed.

Definition ext_step (acc : spec) (e : kv) : spec := insert_like acc (k_id e) (k_stamp e) (v_val e).

Lemma extend_perm kvs : forall s1 s2, NoDup (map k_id s1) -> Permutation s1 s2 ->
  Permutation (fold_left ext_step kvs s1) (fold_left ext_step kvs s2) /\
  NoDup (map k_id (fold_left ext_step kvs s1)).
Proof.
  induction kvs as [|e r IH]; intros s1 s2 Hnd P; cbn [fold_left].
  - split; assumption.
  - apply IH.
    + unfold ext_step. apply insert_like_NoDup. exact Hnd.
    + unfold ext_step. apply insert_like_perm; assumption.
Qed.

Lemma filter_perm (f : kv -> bool) l l' : Permutation l l' -> Permutation (filter f l) (filter f l').
Proof.
  induction 1 as [|x l l' _ IH|x y l|l l' l'' _ IH1 _ IH2]; cbn [filter].
  - apply Permutation_refl.
  - destruct (f x); [apply perm_skip|]; exact IH.
  - destruct (f x), (f y); try apply Permutation_refl. apply perm_swap.
  - etransitivity; eassumption.
Qed.

Lemma filter_keys_In (f : kv -> bool) s k : In k (map k_id (filter f s)) -> In k (map k_id s).
Proof.
  intros H. apply in_map_iff in H. destruct H as (e & <- & Hin). apply filter_In in Hin.
  apply in_map. exact (proj1 Hin).
Qed.

Lemma filter_NoDup (f : kv -> bool) s : NoDup (map k_id s) -> NoDup (map k_id (filter f s)).
Proof.
  induction s as [|x r IH]; cbn [filter map]; intros Hnd; [exact Hnd|].
  inversion Hnd as [|? ? Hx Hr]; subst. destruct (f x); [|exact (IH Hr)].
  cbn [map]. constructor; [|exact (IH Hr)]. intros Hin. apply Hx. exact (filter_keys_In f r _ Hin).
Qed.

Definition retain_fn (keep : list Z) (bump : Z) (e : kv) : list kv :=
  if existsb (Z.eqb (k_id e)) keep then [mkKV (k_id e) (k_stamp e) (wadd 64 (v_val e) bump)] else [].

Lemma retain_keys_In keep bump s k :
  In k (map k_id (flat_map (retain_fn keep bump) s)) -> In k (map k_id s).
Proof.
  induction s as [|x r IH]; cbn [flat_map map]; [intros []|].
  rewrite map_app. intros H. apply in_app_or in H. destruct H as [H|H].
  - unfold retain_fn in H. destruct (existsb _ keep); [|destruct H].
    destruct H as [<-|[]]. left. reflexivity.
  - right. exact (IH H).
Qed.

Lemma retain_NoDup keep bump s : NoDup (map k_id s) ->
  NoDup (map k_id (flat_map (retain_fn keep bump) s)).
Proof.
  induction s as [|x r IH]; cbn [flat_map map]; intros Hnd; [constructor|].
  inversion Hnd as [|? ? Hx Hr]; subst. unfold retain_fn at 1.
  destruct (existsb _ keep); cbn [app map]; [|exact (IH Hr)].
  constructor; [|exact (IH Hr)]. intros Hin. apply Hx. exact (retain_keys_In keep bump r _ Hin).
Qed.

(* the converse of AssocFacts.sublist_of_split: what sublist_of accepts is a sub-multiset, and
   what it returns is the rest *)
Lemma sublist_of_sound l : forall s r, NoDup (map k_id s) -> sublist_of l s = Some r ->
  Permutation (l ++ r) s /\ NoDup (map k_id r).
Proof.
  induction l as [|e l IH]; intros s r Hnd H; cbn [sublist_of app] in *.
  - injection H as <-. split; [apply Permutation_refl|exact Hnd].
  - destruct (lookup s (k_id e)) as [e'|] eqn:El; [|discriminate].
    destruct (kv_eqb e e') eqn:Ee; [|discriminate]. apply kv_eqb_eq in Ee. subst e'.
    destruct (IH _ _ (delete_NoDup s (k_id e) Hnd) H) as (P & Hr). split; [|exact Hr].
    etransitivity; [apply perm_skip; exact P|]. symmetry. exact (delete_present s _ e Hnd El).
Qed.

Lemma same_set_sound l s : NoDup (map k_id s) -> same_set l s = true -> Permutation l s.
Proof.
  unfold same_set. intros Hnd H. destruct (sublist_of l s) as [[|x r]|] eqn:E; try discriminate H.
  destruct (sublist_of_sound l s [] Hnd E) as (P & _). rewrite app_nil_r in P. exact P.
Qed.

(* a sub-multiset as long as the whole is the whole *)
Lemma sub_multiset_full l s : sub_multiset l s -> length l = length s -> Permutation l s.
Proof.
  intros (r & P) Hl. pose proof (Permutation_length P) as HL. rewrite app_length in HL.
  destruct r as [|x r]; [rewrite app_nil_r in P; exact P|]. cbn [length] in HL. lia.
Qed.

Lemma sub_multiset_perm l s s' : Permutation s s' -> sub_multiset l s -> sub_multiset l s'.
Proof. intros P (r & Pr). exists r. etransitivity; eassumption. Qed.

Lemma selected_perm sel s1 s2 : Permutation s1 s2 -> Permutation (selected sel s1) (selected sel s2).
Proof. apply filter_perm. Qed.

Lemma selected_NoDup sel s : NoDup (map k_id s) -> NoDup (map k_id (selected sel s)).
Proof. apply filter_NoDup. Qed.

(* unique keys: at most |sel| elements are selected *)
Lemma selected_length sel s : NoDup (map k_id s) -> (length (selected sel s) <= length sel)%nat.
Proof.
  intros Hnd. rewrite <- (map_length k_id (selected sel s)).
  apply NoDup_incl_length; [apply selected_NoDup; exact Hnd|].
  intros k Hin. apply in_map_iff in Hin. destruct Hin as (e & <- & Hin).
  unfold selected in Hin. apply filter_In in Hin. destruct Hin as (_ & Hex).
  apply existsb_exists in Hex. destruct Hex as (x & Hx & Ex). apply Z.eqb_eq in Ex. rewrite Ex. exact Hx.
Qed.

Lemma order_free_at_of_order_free s op : NoDup (map k_id s) -> order_free op = true -> order_free_at s op = true.
Proof.
  intros Hnd H. destruct op; cbn [order_free order_free_at] in *; try exact H; try discriminate H.
  apply Nat.leb_le in H. apply Nat.leb_le. pose proof (selected_length sel s Hnd). lia.
Qed.

Lemma state_det_at_of_state_det s op : NoDup (map k_id s) -> state_det op = true -> state_det_at s op = true.
Proof.
  intros Hnd H. destruct op; cbn [state_det state_det_at] in *; try exact H.
  apply Nat.leb_le in H. apply Nat.leb_le. pose proof (selected_length sel s Hnd). lia.
Qed.

Lemma order_free_state_det op : order_free op = true -> state_det op = true.
Proof. destruct op; cbn [order_free state_det]; intros H; try reflexivity; exact H. Qed.

Lemma order_free_at_state_det s op : order_free_at s op = true -> state_det_at s op = true.
Proof. destruct op; cbn [order_free_at state_det_at]; intros H; try reflexivity; exact H. Qed.

(* order_free_at / state_det_at / out_sim only look at the contents as a set *)
Lemma order_free_at_perm s1 s2 op : Permutation s1 s2 -> order_free_at s1 op = order_free_at s2 op.
Proof.
  intros P. destruct op; cbn [order_free_at]; try reflexivity.
  - rewrite (Permutation_length P). reflexivity.
  - rewrite (Permutation_length (selected_perm sel s1 s2 P)). reflexivity.
Qed.

(* ---------------------------------------------------------------------------------------- *)
(* the acceptor keeps keys unique                                                             *)
(* ---------------------------------------------------------------------------------------- *)
Lemma spec_accepts_NoDup s op o s' :
  NoDup (map k_id s) -> spec_accepts s op o = Some s' -> NoDup (map k_id s').
Proof.
  intros Hnd E.
  destruct op; cbn [spec_accepts] in E;
    try (match type of E with context [lookup s ?k] => destruct (lookup s k) as [e0|] eqn:El end);
    try (apply expect_inv in E; destruct E as [_ ->];
         first [ exact Hnd | apply NoDup_nil | apply put_NoDup; exact Hnd | apply delete_NoDup; exact Hnd
               | apply insert_like_NoDup; exact Hnd ]).
  - (* try_reserve *) destruct o; try discriminate E. injection E as <-. exact Hnd.
  - (* retain *) apply expect_inv in E. destruct E as [_ ->]. apply (retain_NoDup keep bump s Hnd).
  - (* extend *) apply expect_inv in E. destruct E as [_ ->]. exact (proj2 (extend_perm kvs s s Hnd (Permutation_refl s))).
  - (* drain *) destruct o; try discriminate E. destruct (Nat.eqb _ _); [|discriminate E].
    destruct (sublist_of l s); [|discriminate E]. injection E as <-. constructor.
  - (* extract_if *) destruct o; try discriminate E. destruct (Nat.eqb _ _); [|discriminate E].
    destruct (sublist_of l (filter _ s)); [|discriminate E].
    exact (proj2 (sublist_of_sound l s s' Hnd E)).
  - destruct o; try discriminate E. destruct (same_set l s); [|discriminate E]. injection E as <-. exact Hnd.
  - destruct o; try discriminate E. destruct (same_set l s); [|discriminate E]. injection E as <-. exact Hnd.
  - (* capacity *) destruct o; try discriminate E. destruct (Z.leb _ _); [|discriminate E]. injection E as <-. exact Hnd.
  - destruct o; try discriminate E. injection E as <-. exact Hnd.
  - (* get_or_insert_with, vacant *) destruct (fk =? k).
    + apply expect_inv in E. destruct E as [_ ->]. apply put_NoDup. exact Hnd.
    + destruct o; try discriminate E. injection E as <-. exact Hnd.
Qed.

(* ---------------------------------------------------------------------------------------- *)
(* D2: one step                                                                               *)
(* ---------------------------------------------------------------------------------------- *)
Section Step.
  Variables s1 s2 : spec.
  Hypothesis P : Permutation s1 s2.
  Hypothesis Hnd : NoDup (map k_id s1).

  Let Hnd2 : NoDup (map k_id s2) := NoDup_keys_perm s1 s2 P Hnd.

  Ltac lk E2 :=
    match type of E2 with
    | context [lookup s2 ?k] =>
        rewrite <- (lookup_perm s1 s2 k Hnd P) in E2; destruct (lookup s1 k) as [e0|] eqn:El
    end.

  Ltac ex E1 E2 :=
    apply expect_inv in E1; apply expect_inv in E2;
    destruct E1 as [-> ->]; destruct E2 as [-> ->].

  Ltac fin :=
    split; [cbn [out_sim]; apply out_equiv_refl|intros _;
      first [ exact P | apply Permutation_refl | apply put_perm; exact P | apply delete_perm; exact P
            | apply insert_like_perm; [exact Hnd|exact P] ]].

  (* every operation: what the two outputs share (out_sim), and the next contents agree whenever
     the operation is not a partially consumed extract_if *)
  Lemma spec_accepts_sim op o1 o2 s1' s2' :
    spec_accepts s1 op o1 = Some s1' -> spec_accepts s2 op o2 = Some s2' ->
    out_sim s1 op o1 o2 /\ (state_det_at s1 op = true -> Permutation s1' s2').
  Proof.
    intros E1 E2.
    destruct op; cbn [spec_accepts] in E1, E2; try (lk E2); try (ex E1 E2; fin).
    - (* try_reserve *)
      destruct o1; try discriminate E1. destruct o2; try discriminate E2.
      injection E1 as <-. injection E2 as <-. split; [|intros _; exact P].
      cbn [out_sim]. eexists _, _. split; reflexivity.
    - (* retain *)
      ex E1 E2. split; [cbn [out_sim]; apply out_equiv_refl|intros _].
      apply (Permutation_flat_map (retain_fn keep bump)). exact P.
    - (* extend *)
      ex E1 E2. split; [cbn [out_sim]; apply out_equiv_refl|intros _].
      exact (proj1 (extend_perm kvs s1 s2 Hnd P)).
    - (* drain *)
      destruct o1 as [| | | | | | |l1| | |]; try discriminate E1.
      destruct o2 as [| | | | | | |l2| | |]; try discriminate E2.
      destruct (Nat.eqb_spec (length l1) (Nat.min n (length s1))) as [L1|]; [|discriminate E1].
      destruct (Nat.eqb_spec (length l2) (Nat.min n (length s2))) as [L2|]; [|discriminate E2].
      destruct (sublist_of l1 s1) as [r1|] eqn:S1; [|discriminate E1].
      destruct (sublist_of l2 s2) as [r2|] eqn:S2; [|discriminate E2].
      injection E1 as <-. injection E2 as <-. split; [|intros _; apply Permutation_refl].
      cbn [out_sim]. exists l1, l2. rewrite <- (Permutation_length P) in L2.
      split; [reflexivity|]. split; [reflexivity|]. split; [exact L1|]. split; [exact L2|]. split.
      + exists r1. exact (proj1 (sublist_of_sound l1 s1 r1 Hnd S1)).
      + exists r2. etransitivity; [exact (proj1 (sublist_of_sound l2 s2 r2 Hnd2 S2))|symmetry; exact P].
    - (* extract_if *)
      destruct o1 as [| | | | | | |l1| | |]; try discriminate E1.
      destruct o2 as [| | | | | | |l2| | |]; try discriminate E2.
      fold (selected sel s1) in E1. fold (selected sel s2) in E2.
      destruct (Nat.eqb_spec (length l1) (Nat.min n (length (selected sel s1)))) as [L1|]; [|discriminate E1].
      destruct (Nat.eqb_spec (length l2) (Nat.min n (length (selected sel s2)))) as [L2|]; [|discriminate E2].
      destruct (sublist_of l1 (selected sel s1)) as [r1|] eqn:S1; [|discriminate E1].
      destruct (sublist_of l2 (selected sel s2)) as [r2|] eqn:S2; [|discriminate E2].
      pose proof (selected_perm sel s1 s2 P) as Psel.
      rewrite <- (Permutation_length Psel) in L2.
      pose proof (proj1 (sublist_of_sound _ _ _ (selected_NoDup sel s1 Hnd) S1)) as Q1.
      pose proof (proj1 (sublist_of_sound _ _ _ (selected_NoDup sel s2 Hnd2) S2)) as Q2.
      assert (M1 : sub_multiset l1 (selected sel s1)) by (exists r1; exact Q1).
      assert (M2 : sub_multiset l2 (selected sel s1)).
      { exists r2. etransitivity; [exact Q2|symmetry; exact Psel]. }
      split.
      + cbn [out_sim]. exists l1, l2. split; [reflexivity|]. split; [reflexivity|].
        split; [exact L1|]. split; [exact L2|]. split; assumption.
      + cbn [state_det_at]. intros Hfull. apply Nat.leb_le in Hfull.
        assert (P1 : Permutation l1 (selected sel s1)) by (apply sub_multiset_full; [exact M1|lia]).
        assert (P2 : Permutation l2 (selected sel s1)) by (apply sub_multiset_full; [exact M2|lia]).
        pose proof (proj1 (sublist_of_sound _ _ _ Hnd E1)) as R1.
        pose proof (proj1 (sublist_of_sound _ _ _ Hnd2 E2)) as R2.
        apply (Permutation_app_inv_l l1).
        etransitivity; [exact R1|]. etransitivity; [exact P|]. etransitivity; [symmetry; exact R2|].
        apply Permutation_app_tail. etransitivity; [exact P2|symmetry; exact P1].
    - (* iter *)
      destruct o1 as [| | | | | | |l1| | |]; try discriminate E1.
      destruct o2 as [| | | | | | |l2| | |]; try discriminate E2.
      destruct (same_set l1 s1) eqn:S1; [|discriminate E1].
      destruct (same_set l2 s2) eqn:S2; [|discriminate E2].
      injection E1 as <-. injection E2 as <-. split; [|intros _; exact P].
      cbn [out_sim out_equiv].
      etransitivity; [exact (same_set_sound l1 s1 Hnd S1)|].
      etransitivity; [exact P|]. symmetry. exact (same_set_sound l2 s2 Hnd2 S2).
    - (* iter + fold *)
      destruct o1 as [| | | | | | |l1| | |]; try discriminate E1.
      destruct o2 as [| | | | | | |l2| | |]; try discriminate E2.
      destruct (same_set l1 s1) eqn:S1; [|discriminate E1].
      destruct (same_set l2 s2) eqn:S2; [|discriminate E2].
      injection E1 as <-. injection E2 as <-. split; [|intros _; exact P].
      cbn [out_sim out_equiv].
      etransitivity; [exact (same_set_sound l1 s1 Hnd S1)|].
      etransitivity; [exact P|]. symmetry. exact (same_set_sound l2 s2 Hnd2 S2).
    - (* len *)
      ex E1 E2. split; [|intros _; exact P]. cbn [out_sim out_equiv].
      rewrite (Permutation_length P). reflexivity.
    - (* capacity *)
      destruct o1; try discriminate E1. destruct o2; try discriminate E2.
      destruct (Z.leb_spec (Z.of_nat (length s1)) n) as [C1|]; [|discriminate E1].
      destruct (Z.leb_spec (Z.of_nat (length s2)) n0) as [C2|]; [|discriminate E2].
      injection E1 as <-. injection E2 as <-. split; [|intros _; exact P].
      cbn [out_sim]. exists n, n0. rewrite <- (Permutation_length P) in C2.
      split; [reflexivity|]. split; [reflexivity|]. split; [exact C1|exact C2].
    - (* allocation_size *)
      destruct o1; try discriminate E1. destruct o2; try discriminate E2.
      injection E1 as <-. injection E2 as <-. split; [|intros _; exact P].
      cbn [out_sim]. eexists _, _. split; reflexivity.
    - (* get_or_insert_with, vacant *)
      destruct (fk =? k).
      + ex E1 E2. fin.
      + destruct o1; try discriminate E1. destruct o2; try discriminate E2.
        injection E1 as <-. injection E2 as <-. split; [cbn [out_sim out_equiv]; reflexivity|intros _; exact P].
  Qed.

  (* a yielded-to-the-end drain / extract_if: out_sim is out_equiv *)
  Lemma out_sim_equiv op o1 o2 : order_free_at s1 op = true -> out_sim s1 op o1 o2 -> out_equiv o1 o2.
  Proof.
    intros Hof H. destruct op; cbn [order_free_at] in Hof; try discriminate Hof; cbn [out_sim] in H; try exact H.
    - destruct H as (l1 & l2 & -> & -> & L1 & L2 & M1 & M2). apply Nat.leb_le in Hof. cbn [out_equiv].
      etransitivity; [apply (sub_multiset_full l1 s1 M1); lia|].
      symmetry. apply (sub_multiset_full l2 s1 M2). lia.
    - destruct H as (l1 & l2 & -> & -> & L1 & L2 & M1 & M2). apply Nat.leb_le in Hof. cbn [out_equiv].
      etransitivity; [apply (sub_multiset_full l1 _ M1); lia|].
      symmetry. apply (sub_multiset_full l2 _ M2). lia.
  Qed.

  (* D2, exact form *)
  Lemma spec_accepts_deterministic_at op o1 o2 s1' s2' :
    spec_accepts s1 op o1 = Some s1' -> spec_accepts s2 op o2 = Some s2' ->
    order_free_at s1 op = true ->
    out_equiv o1 o2 /\ Permutation s1' s2' /\ NoDup (map k_id s1').
  Proof.
    intros E1 E2 Hof. destruct (spec_accepts_sim op o1 o2 s1' s2' E1 E2) as (Hs & Hp).
    split; [exact (out_sim_equiv op o1 o2 Hof Hs)|].
    split; [exact (Hp (order_free_at_state_det s1 op Hof))|exact (spec_accepts_NoDup s1 op o1 s1' Hnd E1)].
  Qed.
End Step.

(* D2 as asked: a syntactic class of operations *)
Theorem spec_accepts_deterministic s1 s2 op o1 o2 s1' s2' :
  same_contents s1 s2 ->
  spec_accepts s1 op o1 = Some s1' -> spec_accepts s2 op o2 = Some s2' ->
  order_free op = true ->
  out_equiv o1 o2 /\ same_contents s1' s2'.
Proof.
  intros (P & Hnd) E1 E2 Hof.
  destruct (spec_accepts_deterministic_at s1 s2 P Hnd op o1 o2 s1' s2' E1 E2
              (order_free_at_of_order_free s1 op Hnd Hof)) as (Ho & P' & Hnd').
  split; [exact Ho|split; assumption].
Qed.

(* what a (possibly partial) extract_if conserves: yielded ++ remaining = before *)
Lemma extract_if_conserves s sel n l s' : NoDup (map k_id s) ->
  spec_accepts s (OpExtractIf sel n) (OutList l) = Some s' -> Permutation (l ++ s') s.
Proof.
  intros Hnd E. cbn [spec_accepts] in E. destruct (Nat.eqb _ _); [|discriminate E].
  destruct (sublist_of l (filter _ s)); [|discriminate E]. exact (proj1 (sublist_of_sound l s s' Hnd E)).
Qed.

(* ---------------------------------------------------------------------------------------- *)
(* D3: histories                                                                              *)
(* ---------------------------------------------------------------------------------------- *)
Lemma spec_run_length : forall ops s os s', spec_run s ops os = Some s' -> length os = length ops.
Proof.
  induction ops as [|op r IH]; intros s os s' H; destruct os as [|o os']; cbn [spec_run] in H; try discriminate H.
  - reflexivity.
  - destruct (spec_accepts s op o) as [s1|]; [|discriminate H]. cbn [length]. f_equal. exact (IH _ _ _ H).
Qed.

(* the exact form: the condition is evaluated along the first reference run *)
Theorem spec_run_deterministic_at : forall ops s1 s2 os1 os2 s1' s2',
  same_contents s1 s2 ->
  spec_run s1 ops os1 = Some s1' -> spec_run s2 ops os2 = Some s2' ->
  order_free_run s1 ops os1 = true ->
  Forall2 out_equiv os1 os2 /\ same_contents s1' s2'.
Proof.
  induction ops as [|op r IH]; intros s1 s2 os1 os2 s1' s2' HS E1 E2 Hof;
    destruct os1 as [|o1 os1]; destruct os2 as [|o2 os2]; cbn [spec_run] in E1, E2; try discriminate.
  - injection E1 as <-. injection E2 as <-. split; [constructor|exact HS].
  - cbn [order_free_run] in Hof. apply andb_prop in Hof. destruct Hof as (Hof1 & Hofr).
    destruct (spec_accepts s1 op o1) as [t1|] eqn:A1; [|discriminate E1].
    destruct (spec_accepts s2 op o2) as [t2|] eqn:A2; [|discriminate E2].
    destruct HS as (P & Hnd).
    destruct (spec_accepts_deterministic_at s1 s2 P Hnd op o1 o2 t1 t2 A1 A2 Hof1) as (Ho & P' & Hnd').
    destruct (IH t1 t2 os1 os2 s1' s2' (conj P' Hnd') E1 E2 Hofr) as (Hos & HS').
    split; [constructor; assumption|exact HS'].
Qed.

Lemma order_free_run_of_Forall : forall ops s os s',
  NoDup (map k_id s) -> Forall (fun op => order_free op = true) ops ->
  spec_run s ops os = Some s' -> order_free_run s ops os = true.
Proof.
  induction ops as [|op r IH]; intros s os s' Hnd HF E; destruct os as [|o os]; cbn [spec_run] in E; try discriminate E.
  - reflexivity.
  - inversion HF as [|? ? H1 H2]; subst. cbn [order_free_run].
    destruct (spec_accepts s op o) as [t|] eqn:A; [|discriminate E].
    rewrite (order_free_at_of_order_free s op Hnd H1). cbn [andb].
    exact (IH t os s' (spec_accepts_NoDup s op o t Hnd A) H2 E).
Qed.

(* D3 as asked *)
Theorem spec_run_deterministic : forall ops s1 s2 os1 os2 s1' s2',
  same_contents s1 s2 ->
  spec_run s1 ops os1 = Some s1' -> spec_run s2 ops os2 = Some s2' ->
  Forall (fun op => order_free op = true) ops ->
  Forall2 out_equiv os1 os2 /\ same_contents s1' s2'.
Proof.
  intros ops s1 s2 os1 os2 s1' s2' HS E1 E2 HF.
  apply (spec_run_deterministic_at ops s1 s2 os1 os2 s1' s2' HS E1 E2).
  exact (order_free_run_of_Forall ops s1 os1 s1' (proj2 HS) HF E1).
Qed.

(* every history without a possibly partial extract_if: the contents stay equal, and each pair
   of outputs is related by what the operation preserves (out_sim) *)
Theorem spec_run_sim : forall ops s1 s2 os1 os2 s1' s2',
  same_contents s1 s2 ->
  spec_run s1 ops os1 = Some s1' -> spec_run s2 ops os2 = Some s2' ->
  Forall (fun op => state_det op = true) ops ->
  outs_sim s1 ops os1 os2 /\ same_contents s1' s2'.
Proof.
  induction ops as [|op r IH]; intros s1 s2 os1 os2 s1' s2' HS E1 E2 HF;
    destruct os1 as [|o1 os1]; destruct os2 as [|o2 os2]; cbn [spec_run] in E1, E2; try discriminate.
  - injection E1 as <-. injection E2 as <-. split; [exact I|exact HS].
  - inversion HF as [|? ? H1 H2]; subst. cbn [outs_sim].
    destruct (spec_accepts s1 op o1) as [t1|] eqn:A1; [|discriminate E1].
    destruct (spec_accepts s2 op o2) as [t2|] eqn:A2; [|discriminate E2].
    destruct HS as (P & Hnd).
    destruct (spec_accepts_sim s1 s2 P Hnd op o1 o2 t1 t2 A1 A2) as (Ho & Hp).
    pose proof (Hp (state_det_at_of_state_det s1 op Hnd H1)) as P'.
    pose proof (spec_accepts_NoDup s1 op o1 t1 Hnd A1) as Hnd'.
    destruct (IH t1 t2 os1 os2 s1' s2' (conj P' Hnd') E1 E2 H2) as (Hos & HS').
    split; [split; assumption|exact HS'].
Qed.

(* reading outs_sim: on order-free operations it is out_equiv *)
Lemma outs_sim_equiv : forall ops s os1 os2,
  outs_sim s ops os1 os2 -> order_free_run s ops os1 = true -> Forall2 out_equiv os1 os2.
Proof.
  induction ops as [|op r IH]; intros s os1 os2 H Hof;
    destruct os1 as [|o1 os1]; destruct os2 as [|o2 os2]; cbn [outs_sim] in H; try contradiction.
  - constructor.
  - cbn [order_free_run] in Hof. apply andb_prop in Hof. destruct Hof as (Hof1 & Hofr).
    destruct H as (Ho & Hr). destruct (spec_accepts s op o1) as [t|]; [|contradiction].
    constructor; [|exact (IH t os1 os2 Hr Hofr)].
    destruct op; cbn [order_free_at] in Hof1; try discriminate Hof1; cbn [out_sim] in Ho; try exact Ho.
    + destruct Ho as (l1 & l2 & -> & -> & L1 & L2 & M1 & M2). apply Nat.leb_le in Hof1. cbn [out_equiv].
      etransitivity; [apply (sub_multiset_full l1 s M1); lia|].
      symmetry. apply (sub_multiset_full l2 s M2). lia.
    + destruct Ho as (l1 & l2 & -> & -> & L1 & L2 & M1 & M2). apply Nat.leb_le in Hof1. cbn [out_equiv].
      etransitivity; [apply (sub_multiset_full l1 _ M1); lia|].
      symmetry. apply (sub_multiset_full l2 _ M2). lia.
Qed.

(* ---------------------------------------------------------------------------------------- *)
(* D4: two implementations that refine the acceptor                                           *)
(* ---------------------------------------------------------------------------------------- *)
(* histories covered by the refinement theorem C01: HashMap histories (no HashSet::insert) or
   HashSet histories *)
Definition hist_covered (ops : list map_op) : Prop := Forall not_set_insert ops \/ Forall set_op ops.

Lemma width_generic : WidthOK generic_backend.
Proof. left. reflexivity. Qed.
Lemma width_sse2 : WidthOK sse2_backend.
Proof. right. reflexivity. Qed.

Section TwoRuns.
  (* two back-ends; the element layout, needs_drop, the hash function and the allocator's answers
     may differ as well: none of them is observable through an order-free operation *)
  Variables B1 B2 : backend.
  Hypothesis HW1 : WidthOK B1.
  Hypothesis HB1 : BackendSpec B1.
  Hypothesis HW2 : WidthOK B2.
  Hypothesis HB2 : BackendSpec B2.
  Variables ts1 ta1 ts2 ta2 : Z.
  Hypothesis HL1 : LayoutOK ts1 ta1.
  Hypothesis HL2 : LayoutOK ts2 ta2.
  Variables nd1 nd2 : bool.
  Variables h1 h2 : Z -> option Z.
  Hypothesis HT1 : TotalHash h1.
  Hypothesis HT2 : TotalHash h2.
  Variables ar1 ar2 : bool.
  Variable ops : list map_op.
  Hypothesis Hargs : Forall op_args_ok ops.
  Hypothesis Hcov : hist_covered ops.
  Variables os1 os2 : list out.
  Variables t1 t2 : table kv.
  Hypothesis R1 : run B1 ts1 ta1 nd1 h1 ar1 (new_table B1 kv) ops = Ok (os1, t1).
  Hypothesis R2 : run B2 ts2 ta2 nd2 h2 ar2 (new_table B2 kv) ops = Ok (os2, t2).

  Lemma both_refine :
    exists s1 s2, spec_run [] ops os1 = Some s1 /\ spec_run [] ops os2 = Some s2 /\
                  Inv B1 ts1 ta1 h1 t1 s1 /\ Inv B2 ts2 ta2 h2 t2 s2.
  Proof.
    destruct Hcov as [Hc|Hc].
    - destruct (run_refines_map B1 HW1 HB1 ts1 ta1 HL1 nd1 h1 HT1 ar1 ops os1 t1 Hargs Hc R1) as (_ & s1 & E1 & I1).
      destruct (run_refines_map B2 HW2 HB2 ts2 ta2 HL2 nd2 h2 HT2 ar2 ops os2 t2 Hargs Hc R2) as (_ & s2 & E2 & I2).
      exists s1, s2. split; [exact E1|]. split; [exact E2|]. split; [exact I1|exact I2].
    - destruct (run_refines_set B1 HW1 HB1 ts1 ta1 HL1 nd1 h1 HT1 ar1 ops os1 t1 Hargs Hc R1) as (_ & s1 & E1 & I1).
      destruct (run_refines_set B2 HW2 HB2 ts2 ta2 HL2 nd2 h2 HT2 ar2 ops os2 t2 Hargs Hc R2) as (_ & s2 & E2 & I2).
      exists s1, s2. split; [exact E1|]. split; [exact E2|]. split; [exact I1|exact I2].
  Qed.

  Lemma nil_same : same_contents [] [].
  Proof. split; [apply Permutation_refl|constructor]. Qed.

  (* from equal reference contents to equal table contents and lengths *)
  Lemma inv_same_contents s1 s2 :
    Inv B1 ts1 ta1 h1 t1 s1 -> Inv B2 ts2 ta2 h2 t2 s2 -> same_contents s1 s2 ->
    Permutation (occupants kv t1) (occupants kv t2) /\ items t1 = items t2.
  Proof.
    intros ((SW1 & _) & _ & (P1 & _)) ((SW2 & _) & _ & (P2 & _)) (P & _).
    assert (PO : Permutation (occupants kv t1) (occupants kv t2)).
    { etransitivity; [exact P1|]. etransitivity; [exact P|]. symmetry. exact P2. }
    split; [exact PO|].
    rewrite (occupants_length B1 kv HW1 t1 SW1), (occupants_length B2 kv HW2 t2 SW2).
    rewrite (Permutation_length PO). reflexivity.
  Qed.

  (* exact form: the order-freeness condition is evaluated along the first run *)
  Theorem same_observables_at :
    order_free_run [] ops os1 = true ->
    Forall2 out_equiv os1 os2 /\ Permutation (occupants kv t1) (occupants kv t2) /\ items t1 = items t2.
  Proof.
    intros Hof. destruct both_refine as (s1 & s2 & E1 & E2 & I1 & I2).
    destruct (spec_run_deterministic_at ops [] [] os1 os2 s1 s2 nil_same E1 E2 Hof) as (Ho & HS).
    split; [exact Ho|]. exact (inv_same_contents s1 s2 I1 I2 HS).
  Qed.

  Theorem same_observables :
    Forall (fun op => order_free op = true) ops ->
    Forall2 out_equiv os1 os2 /\ Permutation (occupants kv t1) (occupants kv t2) /\ items t1 = items t2.
  Proof.
    intros HF. destruct both_refine as (s1 & s2 & E1 & E2 & I1 & I2).
    destruct (spec_run_deterministic ops [] [] os1 os2 s1 s2 nil_same E1 E2 HF) as (Ho & HS).
    split; [exact Ho|]. exact (inv_same_contents s1 s2 I1 I2 HS).
  Qed.

  (* every history without a possibly partial extract_if *)
  Theorem same_observables_sim :
    Forall (fun op => state_det op = true) ops ->
    outs_sim [] ops os1 os2 /\ Permutation (occupants kv t1) (occupants kv t2) /\ items t1 = items t2.
  Proof.
    intros HF. destruct both_refine as (s1 & s2 & E1 & E2 & I1 & I2).
    destruct (spec_run_sim ops [] [] os1 os2 s1 s2 nil_same E1 E2 HF) as (Ho & HS).
    split; [exact Ho|]. exact (inv_same_contents s1 s2 I1 I2 HS).
  Qed.
End TwoRuns.

(* outputs that are not lists are literally equal *)
Lemma Forall2_out_equiv_nonlist os1 os2 : Forall2 out_equiv os1 os2 ->
  Forall2 (fun o1 o2 => (forall l, o1 <> OutList l) -> o1 = o2) os1 os2.
Proof.
  induction 1 as [|o1 o2 r1 r2 H _ IH]; constructor; [|exact IH].
  intros Hn. exact (out_equiv_eq o1 o2 Hn H).
Qed.

Print Assumptions spec_accepts_sim.
Print Assumptions spec_accepts_deterministic.
Print Assumptions spec_run_deterministic_at.
Print Assumptions spec_run_deterministic.
Print Assumptions spec_run_sim.
Print Assumptions same_observables_at.
Print Assumptions same_observables.
Print Assumptions same_observables_sim.
