(* IterFacts.v -- iteration over the FULL buckets (RawIterRange / RawIter / fold / FullBucketsIndices).

   For a back-end B with WidthOK B and BackendSpec B, and any table t with SafeWF B T t:
     I1  full_list t (ascending FULL bucket indices) has length count_p is_full (real_ctrl t) = items t
     I2  iter_new succeeds and iter_all yields exactly full_list t (never Fail)
     I5  full_buckets_indices = Ok (full_list t)
     I3  n successive iter_next yield firstn n (full_list t); it_items = remaining count;
         after exhaustion iter_next keeps answering None
     I4  iter_fold from the state after n steps yields skipn n (full_list t)
     I6  range form: a group-aligned sub-range [a, a+len) is enumerated exactly by next_impl with
         the pointer-range check on, and then None for ever.
   No axioms. *)
From Coq Require Import ZArith List Bool Lia Arith.
From HB Require Import RsPrelude Sse2 Gen Group Raw Check WFDefs.
Import ListNotations.
Open Scope nat_scope.

(* ---------------------------------------------------------------------------------------- *)
(* list facts                                                                                 *)
(* ---------------------------------------------------------------------------------------- *)
Lemma skipn_nth_cons {A} (d : A) : forall (c : list A) m,
  m < length c -> skipn m c = nth m c d :: skipn (S m) c.
Proof.
  induction c as [|a c IH]; intros m H; simpl in H.
  - lia.
  - destruct m as [|m].
    + reflexivity.
    + change (skipn m c = nth m c d :: skipn (S m) c). apply IH. lia.
Qed.

Lemma indices_from_seq (f : Z -> bool) (c : list Z) (d : Z) : forall n p k,
  p + k + n <= length c ->
  map (fun b => p + b) (indices_from f k (firstn n (skipn (p + k) c)))
  = filter (fun i => f (nth i c d)) (seq (p + k) n).
Proof.
  induction n as [|n IH]; intros p k H.
  - reflexivity.
  - rewrite (skipn_nth_cons d) by lia.
    cbn [firstn indices_from seq filter].
    replace (S (p + k)) with (p + S k) by lia.
    specialize (IH p (S k)).
    destruct (f (nth (p + k) c d)); cbn [map]; rewrite IH by lia; reflexivity.
Qed.

Lemma filter_nth_firstn (f : Z -> bool) (c : list Z) (d : Z) : forall n a,
  a + n <= length c ->
  filter f (firstn n (skipn a c)) = map (fun i => nth i c d) (filter (fun i => f (nth i c d)) (seq a n)).
Proof.
  induction n as [|n IH]; intros a H.
  - reflexivity.
  - rewrite (skipn_nth_cons d) by lia.
    cbn [firstn seq filter].
    destruct (f (nth a c d)); cbn [map]; rewrite IH by lia; reflexivity.
Qed.

Lemma Forall_skipn {A} (P : A -> Prop) (l : list A) n : Forall P l -> Forall P (skipn n l).
Proof.
  intros H. rewrite <- (firstn_skipn n l) in H. apply Forall_app in H. tauto.
Qed.

Lemma Forall_firstn' {A} (P : A -> Prop) (l : list A) n : Forall P l -> Forall P (firstn n l).
Proof.
  intros H. rewrite <- (firstn_skipn n l) in H. apply Forall_app in H. tauto.
Qed.

Lemma filter_all_false {A} (f : A -> bool) (l : list A) :
  (forall x, In x l -> f x = false) -> filter f l = [].
Proof.
  induction l as [|a l IH]; intros H; simpl.
  - reflexivity.
  - rewrite (H a) by (left; reflexivity). apply IH. intros x Hx. apply H. right. exact Hx.
Qed.

Lemma filter_length_le' {A} (f : A -> bool) (l : list A) : length (filter f l) <= length l.
Proof.
  induction l as [|a l IH]; simpl.
  - lia.
  - destruct (f a); simpl; lia.
Qed.

(* (same as ArithFacts.wrap_small; restated so that this file only depends on the model) *)
Lemma wrap_small' w x : (0 <= x < 2 ^ w)%Z -> wrap w x = x.
Proof. intros H. unfold wrap. apply Z.mod_small. exact H. Qed.

Lemma two_p_64' : (2 ^ 64 = 18446744073709551616)%Z.
Proof. reflexivity. Qed.

Lemma is_full_EMPTY : is_full EMPTY = false.
Proof. reflexivity. Qed.

(* ---------------------------------------------------------------------------------------- *)
(* the collecting functions of I3 and I6                                                      *)
(* ---------------------------------------------------------------------------------------- *)
Section Defs.
  Variable B : backend.
  Variable T : Type.

  (* I1: the FULL bucket indices in ascending order *)
  Definition full_list (t : table T) : list nat :=
    filter (fun i => is_full (byte T t i)) (seq 0 (nb T t)).

  (* FULL indices in [a, a+n) *)
  Definition fl (t : table T) (a n : nat) : list nat :=
    filter (fun i => is_full (byte T t i)) (seq a n).

  (* n successive calls of RawIter::next, collecting the Some results; stops at None *)
  Fixpoint iter_steps (n : nat) (t : table T) (it : raw_iter) : res (list nat * raw_iter) :=
    match n with
    | O => Ok ([], it)
    | S k =>
        '(nxt, it') <- iter_next B T t it ;;
        match nxt with
        | None => Ok ([], it')
        | Some i => '(l, it'') <- iter_steps k t it' ;; Ok (i :: l, it'')
        end
    end.

  (* repeated RawIterRange::next_impl::<true> until it answers None (at most `calls` calls,
     each with inner fuel `fuel`); returns the buckets and the final iterator state *)
  Fixpoint range_collect (calls fuel : nat) (t : table T) (it : raw_iter) : res (list nat * raw_iter) :=
    match calls with
    | O => Fail OutOfFuel
    | S k =>
        '(nxt, it') <- next_impl B T fuel true t it ;;
        match nxt with
        | None => Ok ([], it')
        | Some i => '(l, it'') <- range_collect k fuel t it' ;; Ok (i :: l, it'')
        end
    end.
End Defs.
Arguments full_list {T} t.
Arguments fl {T} t a n.

Section IterFacts.
  Variable B : backend.
  Variable T : Type.
  Hypothesis HW : WidthOK B.
  Hypothesis HB : BackendSpec B.

  Local Notation GW := (bk_width B).

  Lemma GW_pos : 0 < GW.
  Proof. destruct HW as [H|H]; rewrite H; lia. Qed.

  Lemma fl_app (t : table T) a n m : fl t a (n + m) = fl t a n ++ fl t (a + n) m.
  Proof. unfold fl. rewrite seq_app, filter_app. reflexivity. Qed.

  Lemma fl_nil (t : table T) a : fl t a 0 = [].
  Proof. reflexivity. Qed.

  Lemma full_list_fl (t : table T) : full_list t = fl t 0 (nb T t).
  Proof. reflexivity. Qed.

  (* ---- group loads ---- *)
  Lemma load_aligned_ok (t : table T) p q :
    p = GW * q -> p + GW <= length (ctrl t) ->
    load_aligned B T t p = Ok (firstn GW (skipn p (ctrl t))).
  Proof.
    intros -> H. pose proof GW_pos as HG.
    unfold load_aligned, load.
    rewrite Nat.mul_comm, Nat.mod_mul by lia. cbn [Nat.eqb].
    rewrite Nat.mul_comm.
    destruct (Nat.leb_spec (GW * q + GW) (length (ctrl t))); [reflexivity | lia].
  Qed.

  Lemma group_ok_at (t : table T) p :
    Forall valid_ctrl (ctrl t) -> p + GW <= length (ctrl t) ->
    group_ok GW (firstn GW (skipn p (ctrl t))).
  Proof.
    intros Hv Hl. split.
    - rewrite firstn_length, skipn_length. lia.
    - apply Forall_firstn', Forall_skipn, Hv.
  Qed.

  Lemma group_full (t : table T) p :
    Forall valid_ctrl (ctrl t) -> p + GW <= length (ctrl t) ->
    map (fun b => p + b) (g_match_full B (firstn GW (skipn p (ctrl t)))) = fl t p GW.
  Proof.
    intros Hv Hl.
    rewrite (bs_match_full B HB) by (apply group_ok_at; assumption).
    pose proof (indices_from_seq is_full (ctrl t) POISON GW p 0) as H.
    rewrite Nat.add_0_r in H. unfold indices. rewrite H by lia. reflexivity.
  Qed.

  (* ---------------------------------------------------------------------------------------- *)
  (* iterator states                                                                           *)
  (* ---------------------------------------------------------------------------------------- *)
  (* what the iterator still has to yield when scanning up to control index E *)
  Definition pending (t : table T) (E : nat) (it : raw_iter) : list nat :=
    map (fun b => it_first it + b) (it_cur it) ++ fl t (it_next it) (E - it_next it).

  Definition StOK (E : nat) (it : raw_iter) : Prop :=
    it_next it = it_first it + GW /\ (exists q, it_first it = GW * q) /\ it_next it <= E.

  (* the scanned control array: valid bytes, E a multiple of the width inside the array *)
  Definition Scan (t : table T) (E : nat) : Prop :=
    Forall valid_ctrl (ctrl t) /\ E <= length (ctrl t) /\ exists q, E = GW * q.

  Lemma next_impl_eq fuel check t it :
    next_impl B T fuel check t it =
    match it_cur it with
    | b :: r => Ok (Some (it_first it + b), mkIter r (it_first it) (it_next it) (it_end it) (it_items it))
    | [] =>
        if check && (it_end it <=? it_next it) then Ok (None, it) else
        match fuel with
        | O => Fail OutOfFuel
        | S f =>
            g <- load_aligned B T t (it_next it) ;;
            next_impl B T f check t
              (mkIter (g_match_full B g) (it_first it + GW) (it_next it + GW) (it_end it) (it_items it))
        end
    end.
  Proof. destruct fuel; reflexivity. Qed.

  Lemma fold_impl_eq fuel t it n :
    fold_impl B T fuel t it n =
    let visited := map (fun b => it_first it + b) (it_cur it) in
    let n' := wsub 64 n (zn (length (it_cur it))) in
    if (zn (length (it_cur it)) >? n)%Z then Fail UB_slot_uninit
    else if (n' =? 0)%Z then Ok visited else
    match fuel with
    | O => Fail OutOfFuel
    | S f =>
        g <- load_aligned B T t (it_next it) ;;
        rest <- fold_impl B T f t (mkIter (g_match_full B g) (it_first it + GW) (it_next it + GW) (it_end it) 0%Z) n' ;;
        Ok (visited ++ rest)
    end.
  Proof. destruct fuel; reflexivity. Qed.

  (* moving to the next group: the load is in bounds and aligned; the new state has exactly the
     rest of the scan pending *)
  Lemma advance (t : table T) E it :
    Scan t E -> StOK E it -> it_next it < E ->
    exists g, load_aligned B T t (it_next it) = Ok g /\
      forall e x,
        let it' := mkIter (g_match_full B g) (it_first it + GW) (it_next it + GW) e x in
        StOK E it' /\ pending t E it' = fl t (it_next it) (E - it_next it).
  Proof.
    intros (Hv & Hl & qe & HE) (Hn & (q & Hf) & Hle) Hlt.
    pose proof GW_pos as HG.
    assert (Hq : it_next it = GW * (q + 1)) by lia.
    assert (Hfit : it_next it + GW <= E).
    { assert (q + 1 < qe) by nia. nia. }
    exists (firstn GW (skipn (it_next it) (ctrl t))). split.
    - apply (load_aligned_ok t _ (q + 1)); lia.
    - intros e x it'. split.
      + unfold StOK, it'. cbn [it_next it_first]. split; [lia|]. split; [exists (q + 1); lia | lia].
      + unfold pending, it'. cbn [it_next it_first it_cur].
        replace (it_first it + GW) with (it_next it) by lia.
        rewrite group_full by (assumption || lia).
        rewrite <- fl_app. f_equal. lia.
  Qed.

  Lemma pending_cur_nil (t : table T) E it :
    it_cur it = [] -> pending t E it = fl t (it_next it) (E - it_next it).
  Proof. intros Hc. unfold pending. rewrite Hc. reflexivity. Qed.

  Lemma pending_nil_cur (t : table T) E it : pending t E it = [] -> it_cur it = [].
  Proof.
    unfold pending. intros H. apply app_eq_nil in H. destruct H as [H _].
    destruct (it_cur it); [reflexivity | discriminate].
  Qed.

  (* ---- next_impl yields the head of the pending list ---- *)
  Lemma next_impl_some (t : table T) E check : Scan t E ->
    forall fuel it x rest,
      StOK E it -> pending t E it = x :: rest -> E - it_next it <= fuel * GW ->
      (check = false \/ it_end it = E) ->
      exists it', next_impl B T fuel check t it = Ok (Some x, it') /\
                  StOK E it' /\ pending t E it' = rest /\
                  it_items it' = it_items it /\ it_end it' = it_end it /\ it_next it <= it_next it'.
  Proof.
    intros HS.
    assert (Hcons : forall fuel it x rest b r,
      it_cur it = b :: r -> StOK E it -> pending t E it = x :: rest ->
      exists it', next_impl B T fuel check t it = Ok (Some x, it') /\
                  StOK E it' /\ pending t E it' = rest /\
                  it_items it' = it_items it /\ it_end it' = it_end it /\ it_next it <= it_next it').
    { intros fuel it x rest b r Hc Hst Hp.
      rewrite next_impl_eq, Hc.
      unfold pending in Hp. rewrite Hc in Hp. cbn [map app] in Hp. injection Hp as Hx Hr.
      eexists. split; [rewrite Hx; reflexivity|].
      split; [exact Hst|]. split; [|split; [|split]; reflexivity].
      unfold pending. cbn [it_cur it_first it_next]. exact Hr. }
    induction fuel as [|fuel IH]; intros it x rest Hst Hp Hf Hck;
      destruct (it_cur it) as [|b r] eqn:Hc;
      try (eapply Hcons; eassumption).
    - (* no fuel, empty group: the pending list would be empty *)
      exfalso. unfold pending in Hp. rewrite Hc in Hp. cbn [map app] in Hp.
      replace (E - it_next it) with 0 in Hp by lia. discriminate.
    - assert (Hlt : it_next it < E).
      { destruct (Nat.lt_ge_cases (it_next it) E) as [|Hge]; [assumption|].
        exfalso. unfold pending in Hp. rewrite Hc in Hp. cbn [map app] in Hp.
        replace (E - it_next it) with 0 in Hp by lia. discriminate. }
      destruct (advance t E it HS Hst Hlt) as (g & Hload & Hadv).
      rewrite next_impl_eq, Hc.
      assert (Hchk : check && (it_end it <=? it_next it) = false).
      { destruct Hck as [-> | Hend]; [reflexivity|].
        rewrite Hend. destruct (Nat.leb_spec E (it_next it)); [lia|]. apply andb_false_r. }
      rewrite Hchk, Hload. cbn [bind].
      destruct (Hadv (it_end it) (it_items it)) as (Hst' & Hp').
      edestruct (IH _ x rest Hst') as (it' & Hn & Hst'' & Hp'' & Hi & He & Hmono).
      + rewrite Hp', <- (pending_cur_nil t E it Hc). exact Hp.
      + cbn [it_next]. simpl in Hf. lia.
      + cbn [it_end]. exact Hck.
      + exists it'. cbn [it_items it_end it_next] in Hi, He, Hmono.
        split; [exact Hn|]. split; [exact Hst''|]. split; [exact Hp''|].
        split; [exact Hi|]. split; [exact He|]. lia.
  Qed.

  (* ---- with the pointer-range check on, an exhausted range answers None ---- *)
  Lemma next_impl_none (t : table T) E : Scan t E ->
    forall fuel it,
      StOK E it -> pending t E it = [] -> E - it_next it <= fuel * GW -> it_end it = E ->
      exists it', next_impl B T fuel true t it = Ok (None, it') /\
                  it_cur it' = [] /\ it_end it' <= it_next it' /\
                  it_items it' = it_items it.
  Proof.
    intros HS.
    induction fuel as [|fuel IH]; intros it Hst Hp Hf Hend;
      pose proof (pending_nil_cur t E it Hp) as Hc;
      rewrite next_impl_eq, Hc; cbn [andb];
      destruct (Nat.leb_spec (it_end it) (it_next it)) as [Hle|Hlt];
      try (exists it; repeat split; assumption).
    - exfalso. lia.
    - rewrite Hend in Hlt.
      destruct (advance t E it HS Hst Hlt) as (g & Hload & Hadv).
      rewrite Hload. cbn [bind].
      destruct (Hadv (it_end it) (it_items it)) as (Hst' & Hp').
      edestruct (IH _ Hst') as (it' & Hn & Hc' & Hle' & Hi).
      + rewrite Hp', <- (pending_cur_nil t E it Hc). exact Hp.
      + cbn [it_next]. simpl in Hf. lia.
      + cbn [it_end]. exact Hend.
      + exists it'. cbn [it_items] in Hi. auto.
  Qed.

  Lemma next_impl_none_stable (t : table T) fuel it :
    it_cur it = [] -> it_end it <= it_next it ->
    next_impl B T fuel true t it = Ok (None, it).
  Proof.
    intros Hc Hle. rewrite next_impl_eq, Hc. cbn [andb].
    destruct (Nat.leb_spec (it_end it) (it_next it)); [reflexivity | lia].
  Qed.

  (* ---- range_new ---- *)
  Lemma range_new_spec (t : table T) E a len n :
    Scan t E -> (exists q, a = GW * q) -> a < E ->
    exists it, range_new B T t a len n = Ok it /\ StOK E it /\
               pending t E it = fl t a (E - a) /\ it_end it = a + len /\ it_items it = n.
  Proof.
    intros (Hv & Hl & qe & HE) (q & Ha) Hlt. pose proof GW_pos as HG.
    assert (Hfit : a + GW <= E).
    { assert (q < qe) by nia. nia. }
    unfold range_new. rewrite (load_aligned_ok t a q) by lia. cbn [bind].
    eexists. split; [reflexivity|]. split; [|split; [|split; reflexivity]].
    - unfold StOK. cbn [it_next it_first]. split; [reflexivity|]. split; [exists q; exact Ha | lia].
    - unfold pending. cbn [it_cur it_first it_next].
      rewrite group_full by (assumption || lia).
      rewrite <- fl_app. f_equal. lia.
  Qed.

  (* ---- I6: the range collector ---- *)
  Lemma range_collect_spec (t : table T) E fuel : Scan t E ->
    forall calls it,
      StOK E it -> it_end it = E -> E - it_next it <= fuel * GW ->
      length (pending t E it) < calls ->
      exists it_end', range_collect B T calls fuel t it = Ok (pending t E it, it_end') /\
                      it_items it_end' = it_items it /\
                      forall fuel', next_impl B T fuel' true t it_end' = Ok (None, it_end').
  Proof.
    intros HS.
    induction calls as [|calls IH]; intros it Hst Hend Hfu Hlen; [lia|].
    cbn [range_collect].
    destruct (pending t E it) as [|x rest] eqn:Hp.
    - destruct (next_impl_none t E HS fuel it Hst Hp Hfu Hend) as (it' & Hn & Hc' & Hle' & Hi).
      rewrite Hn. cbn [bind]. exists it'. split; [reflexivity|]. split; [exact Hi|].
      intros fuel'. apply next_impl_none_stable; assumption.
    - destruct (next_impl_some t E true HS fuel it x rest Hst Hp Hfu (or_intror Hend))
        as (it' & Hn & Hst' & Hp' & Hi & He & Hmono).
      rewrite Hn. cbn [bind].
      destruct (IH it' Hst') as (ite & Hr & Hie & Hstable).
      + rewrite He. exact Hend.
      + lia.
      + rewrite Hp'. simpl in Hlen. lia.
      + rewrite Hr, Hp'. cbn [bind]. exists ite. split; [reflexivity|]. split; [congruence | exact Hstable].
  Qed.

  (* ---------------------------------------------------------------------------------------- *)
  (* RawIter: the items countdown                                                              *)
  (* ---------------------------------------------------------------------------------------- *)
  Definition IterInv (t : table T) (E : nat) (it : raw_iter) (P : list nat) : Prop :=
    StOK E it /\ pending t E it = P /\ it_items it = zn (length P) /\ (it_items it < 2 ^ 64)%Z.

  Lemma wsub_succ n : (zn (S n) < 2 ^ 64)%Z -> wsub 64 (zn (S n)) 1 = zn n.
  Proof.
    intros H. unfold wsub. rewrite wrap_small'; unfold zn in *; lia.
  Qed.

  Lemma iter_next_none (t : table T) E it : IterInv t E it [] -> iter_next B T t it = Ok (None, it).
  Proof.
    intros (_ & _ & Hi & _). unfold iter_next. rewrite Hi. reflexivity.
  Qed.

  Lemma iter_next_some (t : table T) E it x rest :
    Scan t E -> E <= iter_fuel B T t * GW ->
    IterInv t E it (x :: rest) ->
    exists it', iter_next B T t it = Ok (Some x, it') /\ IterInv t E it' rest.
  Proof.
    intros HS HF (Hst & Hp & Hi & Hb).
    unfold iter_next.
    assert (Hnz : (it_items it =? 0)%Z = false).
    { rewrite Hi. apply Z.eqb_neq. unfold zn. simpl length. lia. }
    rewrite Hnz.
    destruct (next_impl_some t E false HS (iter_fuel B T t) it x rest Hst Hp) as
      (it' & Hn & Hst' & Hp' & Hi' & _ & _); [lia | left; reflexivity |].
    rewrite Hn. cbn [bind].
    eexists. split; [reflexivity|].
    unfold IterInv, StOK, pending. cbn [it_cur it_first it_next it_items].
    split; [exact Hst'|]. split; [exact Hp'|].
    rewrite Hi', Hi. simpl length.
    rewrite Hi in Hb. simpl length in Hb.
    rewrite wsub_succ by exact Hb. split; [reflexivity|].
    unfold zn in *. lia.
  Qed.

  (* I3, general form: n steps from any state *)
  Lemma iter_steps_spec (t : table T) E : Scan t E -> E <= iter_fuel B T t * GW ->
    forall n it P, IterInv t E it P ->
      exists it', iter_steps B T n t it = Ok (firstn n P, it') /\ IterInv t E it' (skipn n P).
  Proof.
    intros HS HF. induction n as [|n IH]; intros it P HI.
    - exists it. split; [reflexivity | exact HI].
    - cbn [iter_steps]. destruct P as [|x rest].
      + rewrite (iter_next_none t E it HI). cbn [bind]. exists it. split; [reflexivity | exact HI].
      + destruct (iter_next_some t E it x rest HS HF HI) as (it1 & Hn & HI1).
        rewrite Hn. cbn [bind].
        destruct (IH it1 rest HI1) as (it' & Hs & HI').
        rewrite Hs. cbn [bind]. exists it'. split; [reflexivity | exact HI'].
  Qed.

  Lemma iter_collect_spec (t : table T) E : Scan t E -> E <= iter_fuel B T t * GW ->
    forall fuel it P, IterInv t E it P -> length P < fuel -> iter_collect B T fuel t it = Ok P.
  Proof.
    intros HS HF. induction fuel as [|fuel IH]; intros it P HI Hlen; [lia|].
    cbn [iter_collect]. destruct P as [|x rest].
    - rewrite (iter_next_none t E it HI). reflexivity.
    - destruct (iter_next_some t E it x rest HS HF HI) as (it1 & Hn & HI1).
      rewrite Hn. cbn [bind].
      rewrite (IH it1 rest HI1) by (simpl in Hlen; lia). reflexivity.
  Qed.

  (* I4, general form *)
  Lemma fold_head (t : table T) E it n :
    n = zn (length (pending t E it)) -> (n < 2 ^ 64)%Z ->
    (zn (length (it_cur it)) >? n)%Z = false /\
    wsub 64 n (zn (length (it_cur it))) = zn (length (fl t (it_next it) (E - it_next it))).
  Proof.
    intros Hn Hb. unfold pending in Hn. rewrite app_length, map_length in Hn.
    split.
    - rewrite Z.gtb_ltb. apply Z.ltb_ge. rewrite Hn. unfold zn. lia.
    - unfold wsub. rewrite wrap_small'; rewrite Hn in *; unfold zn in *; lia.
  Qed.

  Lemma fold_done (t : table T) E it :
    (zn (length (fl t (it_next it) (E - it_next it))) =? 0)%Z = true ->
    Ok (map (fun b => it_first it + b) (it_cur it)) = Ok (A := list nat) (pending t E it).
  Proof.
    intros Hz. apply Z.eqb_eq in Hz. unfold pending.
    destruct (fl t (it_next it) (E - it_next it)); [|unfold zn in Hz; simpl in Hz; lia].
    rewrite app_nil_r. reflexivity.
  Qed.

  Lemma fold_impl_spec (t : table T) E : Scan t E ->
    forall fuel it n,
      StOK E it -> n = zn (length (pending t E it)) -> (n < 2 ^ 64)%Z ->
      E - it_next it <= fuel * GW ->
      fold_impl B T fuel t it n = Ok (pending t E it).
  Proof.
    intros HS.
    induction fuel as [|fuel IH]; intros it n Hst Hn Hb Hf;
      rewrite fold_impl_eq; cbv zeta;
      destruct (fold_head t E it n Hn Hb) as [Hgt Hn']; rewrite Hgt, Hn';
      destruct (zn (length (fl t (it_next it) (E - it_next it))) =? 0)%Z eqn:Hz;
      try (apply fold_done; assumption).
    - exfalso. replace (E - it_next it) with 0 in Hz by lia. discriminate.
    - assert (Hlt : it_next it < E).
      { destruct (Nat.lt_ge_cases (it_next it) E) as [|Hge]; [assumption|].
        exfalso. replace (E - it_next it) with 0 in Hz by lia. discriminate. }
      destruct (advance t E it HS Hst Hlt) as (g & Hload & Hadv).
      rewrite Hload. cbn [bind].
      destruct (Hadv (it_end it) 0%Z) as (Hst' & Hp').
      rewrite (IH _ _ Hst').
      + cbn [bind]. rewrite Hp'. reflexivity.
      + rewrite Hp'. reflexivity.
      + apply Z.eqb_neq in Hz. rewrite <- Hn'. unfold wsub, wrap.
        apply Z.mod_pos_bound. reflexivity.
      + cbn [it_next]. simpl in Hf. lia.
  Qed.

  Lemma iter_fold_spec (t : table T) E it P : Scan t E -> E <= iter_fuel B T t * GW ->
    IterInv t E it P -> iter_fold B T t it = Ok P.
  Proof.
    intros HS HF (Hst & Hp & Hi & Hb). unfold iter_fold.
    rewrite (fold_impl_spec t E HS _ it (it_items it) Hst).
    - rewrite Hp. reflexivity.
    - rewrite Hp. exact Hi.
    - exact Hb.
    - destruct Hst as (Hn & _ & _). lia.
  Qed.

  (* ---------------------------------------------------------------------------------------- *)
  (* what SafeWF provides                                                                      *)
  (* ---------------------------------------------------------------------------------------- *)
  (* the control index up to which the iterator scans: all buckets, or one whole group for a
     table smaller than a group *)
  Definition iter_bound (t : table T) : nat := if GW <=? nb T t then nb T t else GW.

  Lemma pow2_div8 k : 8 <= 2 ^ k -> exists q, 2 ^ k = 8 * q.
  Proof.
    intros H. destruct k as [|[|[|k]]]; try (simpl in H; lia).
    exists (2 ^ k). rewrite !Nat.pow_succ_r'. lia.
  Qed.

  Lemma pow2_div16 k : 16 <= 2 ^ k -> exists q, 2 ^ k = 16 * q.
  Proof.
    intros H. destruct k as [|[|[|[|k]]]]; try (simpl in H; lia).
    exists (2 ^ k). rewrite !Nat.pow_succ_r'. lia.
  Qed.

  Lemma valid_repeat_EMPTY n : Forall valid_ctrl (repeat EMPTY n).
  Proof.
    apply Forall_forall. intros x Hx. apply repeat_spec in Hx. subst x. right. right. reflexivity.
  Qed.

  Lemma nth_repeat_lt (a d : Z) n i : i < n -> nth i (repeat a n) d = a.
  Proof.
    intros H. apply (repeat_spec n a). apply nth_In. rewrite repeat_length. exact H.
  Qed.

  Lemma pow2_bound k : k <= 62 -> (zn (2 ^ k) <= 2 ^ 62)%Z.
  Proof.
    intros H. unfold zn. rewrite Nat2Z.inj_pow. apply Z.pow_le_mono_r; lia.
  Qed.

  Record Geo (t : table T) : Prop := {
    geo_scan : Scan t (iter_bound t);
    geo_fuel : iter_bound t <= iter_fuel B T t * GW;
    geo_list : fl t 0 (iter_bound t) = full_list t;
    geo_len : nb T t <= length (ctrl t);
    geo_items : items t = zn (count_p is_full (real_ctrl T t));
    geo_nb : (zn (nb T t) <= 2 ^ 62)%Z
  }.

  Lemma fl_padding (t : table T) :
    (forall i, nb T t <= i < GW -> byte T t i = EMPTY) -> nb T t < GW ->
    fl t 0 GW = full_list t.
  Proof.
    intros Hpad Hlt. replace GW with (nb T t + (GW - nb T t)) at 1 by lia.
    rewrite fl_app. cbn [Nat.add]. rewrite <- full_list_fl.
    unfold fl at 1. rewrite filter_all_false; [apply app_nil_r|].
    intros x Hx. apply in_seq in Hx. rewrite Hpad by lia. apply is_full_EMPTY.
  Qed.

  Lemma fuel_bound n : n <= S (n / GW) * GW.
  Proof.
    pose proof GW_pos as HG.
    pose proof (Nat.div_mod n GW ltac:(lia)) as H1.
    pose proof (Nat.mod_upper_bound n GW ltac:(lia)) as H2.
    simpl. lia.
  Qed.

  Lemma safe_geo (t : table T) : SafeWF B T t -> Geo t.
  Proof.
    pose proof GW_pos as HG.
    unfold SafeWF. cbv zeta. destruct (mask t =? 0) eqn:Hm; intros H.
    - (* the static empty singleton *)
      subst t.
      assert (Hnb : nb T (new_table B T) = 1) by reflexivity.
      assert (Hc : ctrl (new_table B T) = repeat EMPTY GW) by reflexivity.
      assert (Hlt : 1 < GW) by (destruct HW as [H|H]; rewrite H; lia).
      assert (Hb : iter_bound (new_table B T) = GW).
      { unfold iter_bound. rewrite Hnb. destruct (Nat.leb_spec GW 1); [lia | reflexivity]. }
      split.
      + rewrite Hb. split; [|split].
        * rewrite Hc. apply valid_repeat_EMPTY.
        * rewrite Hc, repeat_length. lia.
        * exists 1. lia.
      + rewrite Hb. unfold iter_fuel. simpl. lia.
      + rewrite Hb. apply fl_padding; [|lia].
        intros i Hi. unfold byte. rewrite Hc. apply nth_repeat_lt. lia.
      + rewrite Hc, repeat_length, Hnb. lia.
      + unfold real_ctrl, count_p, new_table, buckets. cbn [mask ctrl items].
        destruct HW as [H|H]; rewrite H; reflexivity.
      + rewrite Hnb. apply Z.leb_le. reflexivity.
    - (* an allocated table *)
      destruct H as (((k & Hk & Hpow) & Hlen & Hsl & Hv) & Hmir & (Hit & _)).
      unfold Mirror in Hmir. cbv zeta in Hmir.
      split.
      + split; [exact Hv|]. unfold iter_bound.
        destruct (Nat.leb_spec GW (nb T t)) as [Hge|Hlt].
        * split; [lia|]. rewrite Hpow in *.
          destruct HW as [H|H]; rewrite H in *; [apply pow2_div8 | apply pow2_div16]; exact Hge.
        * split; [lia|]. exists 1. lia.
      + unfold iter_bound, iter_fuel. fold (nb T t).
        destruct (Nat.leb_spec GW (nb T t)) as [Hge|Hlt].
        * apply fuel_bound.
        * simpl. lia.
      + unfold iter_bound.
        destruct (Nat.leb_spec GW (nb T t)) as [Hge|Hlt].
        * reflexivity.
        * destruct Hmir as [Hpad _]. apply fl_padding; assumption.
      + lia.
      + exact Hit.
      + rewrite Hpow. apply pow2_bound. lia.
  Qed.

  (* ---------------------------------------------------------------------------------------- *)
  (* I1                                                                                         *)
  (* ---------------------------------------------------------------------------------------- *)
  Theorem full_list_count (t : table T) : SafeWF B T t ->
    length (full_list t) = count_p is_full (real_ctrl T t).
  Proof.
    intros H. destruct (safe_geo t H) as [_ _ _ Hlen _ _].
    unfold count_p, real_ctrl. fold (nb T t).
    pose proof (filter_nth_firstn is_full (ctrl t) POISON (nb T t) 0) as Hf.
    cbn [skipn] in Hf. rewrite Hf by lia. rewrite map_length. reflexivity.
  Qed.

  Theorem items_full_list (t : table T) : SafeWF B T t ->
    items t = Z.of_nat (length (full_list t)).
  Proof.
    intros H. rewrite (full_list_count t H). destruct (safe_geo t H) as [_ _ _ _ Hi _]. exact Hi.
  Qed.

  Lemma full_list_le (t : table T) : length (full_list t) <= nb T t.
  Proof.
    unfold full_list. etransitivity; [apply filter_length_le'|]. rewrite seq_length. lia.
  Qed.

  Corollary items_singleton : items (new_table B T) = 0%Z /\ full_list (new_table B T) = [].
  Proof.
    split; [reflexivity|].
    assert (H : SafeWF B T (new_table B T)) by reflexivity.
    pose proof (items_full_list _ H) as Hi. change (items (new_table B T)) with 0%Z in Hi.
    destruct (full_list (new_table B T)); [reflexivity | simpl in Hi; lia].
  Qed.

  (* ---------------------------------------------------------------------------------------- *)
  (* I2, I5                                                                                     *)
  (* ---------------------------------------------------------------------------------------- *)
  Lemma iter_new_inv (t : table T) : SafeWF B T t ->
    exists it, iter_new B T t = Ok it /\ IterInv t (iter_bound t) it (full_list t).
  Proof.
    intros H. pose proof GW_pos as HG.
    destruct (safe_geo t H) as [HS HF HL Hlen Hi Hnb].
    assert (Hpos : 0 < iter_bound t).
    { unfold iter_bound. destruct (Nat.leb_spec GW (nb T t)); lia. }
    destruct (range_new_spec t (iter_bound t) 0 (buckets T t) (items t) HS) as
      (it & Hr & Hst & Hp & _ & Hit); [exists 0; lia | exact Hpos |].
    exists it. split; [exact Hr|].
    rewrite Nat.sub_0_r, HL in Hp.
    split; [exact Hst|]. split; [exact Hp|].
    rewrite Hit. pose proof (items_full_list t H) as Hi'. pose proof (full_list_le t) as Hle.
    split; [exact Hi'|]. rewrite Hi'. rewrite two_p_64'.
    assert ((2 ^ 62 = 4611686018427387904)%Z) as H62 by reflexivity.
    unfold zn in *. lia.
  Qed.

  Theorem iter_exact (t : table T) : SafeWF B T t ->
    exists it, iter_new B T t = Ok it /\ iter_all B T t it = Ok (full_list t).
  Proof.
    intros H. destruct (iter_new_inv t H) as (it & Hn & HI).
    destruct (safe_geo t H) as [HS HF _ _ _ _].
    exists it. split; [exact Hn|].
    unfold iter_all. apply (iter_collect_spec t (iter_bound t) HS HF _ it _ HI).
    pose proof (full_list_le t). unfold nb in *. lia.
  Qed.

  Theorem full_buckets_indices_exact (t : table T) : SafeWF B T t ->
    full_buckets_indices B T t = Ok (full_list t).
  Proof.
    intros H. destruct (iter_exact t H) as (it & Hn & Ha).
    unfold full_buckets_indices. rewrite Hn. cbn [bind]. exact Ha.
  Qed.

  (* ---------------------------------------------------------------------------------------- *)
  (* I3, I4                                                                                     *)
  (* ---------------------------------------------------------------------------------------- *)
  (* all in one: the state after n calls of next (any n) *)
  Theorem iter_steps_exact (t : table T) it0 : SafeWF B T t -> iter_new B T t = Ok it0 ->
    forall n, exists it_n,
      iter_steps B T n t it0 = Ok (firstn n (full_list t), it_n) /\
      it_items it_n = Z.of_nat (length (full_list t) - n) /\
      iter_fold B T t it_n = Ok (skipn n (full_list t)) /\
      (length (full_list t) <= n -> iter_next B T t it_n = Ok (None, it_n)).
  Proof.
    intros H Hn n. destruct (iter_new_inv t H) as (it & Hn' & HI).
    rewrite Hn in Hn'. injection Hn' as <-.
    destruct (safe_geo t H) as [HS HF _ _ _ _].
    destruct (iter_steps_spec t (iter_bound t) HS HF n it0 _ HI) as (it_n & Hs & HIn).
    exists it_n. split; [exact Hs|]. split; [|split].
    - destruct HIn as (_ & _ & Hi & _). rewrite Hi, skipn_length. reflexivity.
    - apply (iter_fold_spec t (iter_bound t) it_n _ HS HF HIn).
    - intros Hle. rewrite skipn_all2 in HIn by exact Hle.
      apply (iter_next_none t (iter_bound t) it_n HIn).
  Qed.

  (* I3 as stated: prefixes, and the reported length *)
  Theorem iter_steps_prefix (t : table T) : SafeWF B T t ->
    exists it0, iter_new B T t = Ok it0 /\
      forall n, n <= length (full_list t) ->
        exists it_n, iter_steps B T n t it0 = Ok (firstn n (full_list t), it_n) /\
                     it_items it_n = Z.of_nat (length (full_list t) - n).
  Proof.
    intros H. destruct (iter_new_inv t H) as (it0 & Hn & _).
    exists it0. split; [exact Hn|]. intros n _.
    destruct (iter_steps_exact t it0 H Hn n) as (it_n & Hs & Hi & _).
    exists it_n. auto.
  Qed.

  (* after exhaustion: whatever number n >= len of calls was made, everything was yielded, the
     count is 0, and next keeps answering None without changing the state *)
  Theorem iter_exhausted (t : table T) it0 n l it_n : SafeWF B T t -> iter_new B T t = Ok it0 ->
    length (full_list t) <= n -> iter_steps B T n t it0 = Ok (l, it_n) ->
    l = full_list t /\ it_items it_n = 0%Z /\
    iter_next B T t it_n = Ok (None, it_n) /\
    forall m, iter_steps B T m t it_n = Ok ([], it_n).
  Proof.
    intros H Hn Hle Hs.
    destruct (iter_steps_exact t it0 H Hn n) as (it' & Hs' & Hi & _ & Hnone).
    rewrite Hs in Hs'. injection Hs' as -> <-.
    split; [apply firstn_all2; exact Hle|].
    split; [rewrite Hi; replace (length (full_list t) - n) with 0 by lia; reflexivity|].
    specialize (Hnone Hle). split; [exact Hnone|].
    intros m. destruct m as [|m]; [reflexivity|]. cbn [iter_steps]. rewrite Hnone. reflexivity.
  Qed.

  (* I4 as stated: fold from the state reached by n calls of next visits exactly the rest *)
  Theorem iter_fold_after_steps (t : table T) it0 n l it_n : SafeWF B T t ->
    iter_new B T t = Ok it0 -> iter_steps B T n t it0 = Ok (l, it_n) ->
    l = firstn n (full_list t) /\ iter_fold B T t it_n = Ok (skipn n (full_list t)).
  Proof.
    intros H Hn Hs.
    destruct (iter_steps_exact t it0 H Hn n) as (it' & Hs' & _ & Hf & _).
    rewrite Hs in Hs'. injection Hs' as -> <-. split; [reflexivity | exact Hf].
  Qed.

  Corollary iter_fold_exact (t : table T) it0 : SafeWF B T t -> iter_new B T t = Ok it0 ->
    iter_fold B T t it0 = Ok (full_list t).
  Proof.
    intros H Hn. apply (iter_fold_after_steps t it0 0 [] it0 H Hn). reflexivity.
  Qed.

  (* ---------------------------------------------------------------------------------------- *)
  (* I6                                                                                         *)
  (* ---------------------------------------------------------------------------------------- *)
  Theorem range_exact (t : table T) a len n_items calls fuel : SafeWF B T t ->
    GW <= nb T t -> Nat.divide GW a -> Nat.divide GW len -> 0 < len -> a + len <= nb T t ->
    len < calls -> len <= fuel * GW + GW ->
    exists it it_end,
      range_new B T t a len n_items = Ok it /\
      range_collect B T calls fuel t it
        = Ok (filter (fun i => is_full (byte T t i)) (seq a len), it_end) /\
      it_items it_end = n_items /\
      forall fuel', next_impl B T fuel' true t it_end = Ok (None, it_end).
  Proof.
    intros H Hge (qa & Ha) (ql & Hl) Hpos Hfit Hcalls Hfuel.
    destruct (safe_geo t H) as [(Hv & _ & _) _ _ Hlen _ _].
    assert (HS : Scan t (a + len)).
    { split; [exact Hv|]. split; [lia|]. exists (qa + ql). lia. }
    destruct (range_new_spec t (a + len) a len n_items HS) as
      (it & Hr & Hst & Hp & Hend & Hit); [exists qa; lia | lia |].
    replace (a + len - a) with len in Hp by lia.
    destruct (range_collect_spec t (a + len) fuel HS calls it Hst Hend) as
      (ite & Hc & Hi & Hstable).
    - destruct Hst as (Hnx & _ & _).
      assert (it_first it = a).
      { unfold range_new in Hr. destruct (load_aligned B T t a); [|discriminate].
        injection Hr as <-. reflexivity. }
      lia.
    - rewrite Hp. unfold fl.
      pose proof (filter_length_le' (fun i => is_full (byte T t i)) (seq a len)) as Hfl.
      rewrite seq_length in Hfl. lia.
    - exists it, ite. split; [exact Hr|]. split; [|split].
      + rewrite Hc, Hp. reflexivity.
      + congruence.
      + exact Hstable.
  Qed.
End IterFacts.

Print Assumptions full_list_count.
Print Assumptions items_full_list.
Print Assumptions iter_exact.
Print Assumptions full_buckets_indices_exact.
Print Assumptions iter_steps_exact.
Print Assumptions iter_steps_prefix.
Print Assumptions iter_exhausted.
Print Assumptions iter_fold_after_steps.
Print Assumptions range_exact.
