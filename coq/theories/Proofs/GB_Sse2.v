(* GB_Sse2.v -- the SSE2 scanner back-end satisfies the byte-wise contract, and is exact. *)
From Coq Require Import ZArith List Bool Lia Sorted.
From HB Require Import RsPrelude Sse2 Gen Group GB_Bits.
Import ListNotations.
Open Scope Z_scope.

(* ------------------------------------------------------------------------------------------ *)
(* list helpers                                                                                 *)
(* ------------------------------------------------------------------------------------------ *)
Lemma map2_repeat_r {A C D} (f : A -> C -> D) a y n : (length a <= n)%nat ->
  map2 f a (repeat y n) = map (fun x => f x y) a.
Proof.
  revert n; induction a as [|x r IH]; intros n L; [reflexivity|].
  destruct n as [|n]; cbn [length] in L; [lia|]. cbn [repeat map2 map]. rewrite IH by lia. reflexivity.
Qed.

Lemma map2_repeat_l {A C D} (f : A -> C -> D) x b n : (length b <= n)%nat ->
  map2 f (repeat x n) b = map (f x) b.
Proof.
  revert n; induction b as [|y r IH]; intros n L; [destruct n; reflexivity|].
  destruct n as [|n]; cbn [length] in L; [lia|]. cbn [repeat map2 map]. rewrite IH by lia. reflexivity.
Qed.

Lemma nth_map_lt {A C} (f : A -> C) l j d d' : (j < length l)%nat ->
  nth j (map f l) d' = f (nth j l d).
Proof.
  intros L. rewrite (nth_indep _ d' (f d)) by (rewrite map_length; assumption). apply map_nth.
Qed.

Lemma map_ext_Forall {A C} (Q : A -> Prop) (f h : A -> C) l :
  (forall x, Q x -> f x = h x) -> Forall Q l -> map f l = map h l.
Proof. intros E F. induction F; cbn [map]; [reflexivity|]. rewrite E, IHF by assumption. reflexivity. Qed.

Lemma valid_ctrl_byte b : valid_ctrl b -> 0 <= b < 256.
Proof. unfold valid_ctrl, DELETED, EMPTY, tag_DELETED, tag_EMPTY. lia. Qed.

(* ------------------------------------------------------------------------------------------ *)
(* complementing a mask word                                                                    *)
(* ------------------------------------------------------------------------------------------ *)
Lemma bw_invert s bs : 1 <= s ->
  Z.lxor (bw s bs) (bw s (map (fun _ => true) bs)) = bw s (map negb bs).
Proof.
  intros Hs. pose proof (top_pos s Hs). pose proof (K_top s Hs).
  induction bs as [|b r IH]; cbn [bw map]; [reflexivity|].
  rewrite lxor_split by (destruct b; lia). rewrite IH.
  destruct b; cbn [negb]; [rewrite Z.lxor_nilpotent|rewrite Z.lxor_0_l]; reflexivity.
Qed.

(* ------------------------------------------------------------------------------------------ *)
(* movemask is a stride-1 mask word                                                             *)
(* ------------------------------------------------------------------------------------------ *)
Definition hi (x : Z) : bool := 128 <=? x.

Lemma bw1_cons b r : bw 1 (b :: r) = (if b then 1 else 0) + 2 * bw 1 r.
Proof. reflexivity. Qed.

Lemma movemask_bw v bit : movemask_from v bit = bit * bw 1 (map hi v).
Proof.
  revert bit; induction v as [|x r IH]; intros bit; cbn [movemask_from map]; [cbn [bw]; lia|].
  rewrite bw1_cons, IH. unfold hi. destruct (128 <=? x); ring.
Qed.

Lemma P_1_16 : P 1 16 = 65536. Proof. reflexivity. Qed.

Lemma bw1_small bs : length bs = 16%nat -> 0 <= bw 1 bs < 65536.
Proof.
  intros L. pose proof (bw_nonneg 1 ltac:(lia) bs). pose proof (bw_bound 1 ltac:(lia) bs).
  rewrite L, P_1_16 in *. lia.
Qed.

Lemma sse2_movemask v : length v = 16%nat -> wrap 16 (mm_movemask_epi8 v) = bw 1 (map hi v).
Proof.
  intros L. unfold mm_movemask_epi8. rewrite movemask_bw, Z.mul_1_l.
  unfold wrap. apply Z.mod_small. change (2 ^ 16) with 65536. apply bw1_small.
  rewrite map_length; assumption.
Qed.

Lemma to_signed_byte t : 0 <= t < 256 -> to_signed 8 t mod 256 = t.
Proof.
  intros H. unfold to_signed. change (2 ^ (8 - 1)) with 128. change (2 ^ 8) with 256.
  destruct (t <? 128).
  - apply Z.mod_small; lia.
  - symmetry. apply Z.mod_unique with (-1); lia.
Qed.

Lemma sse2_match_tag_bw g t : length g = 16%nat -> 0 <= t < 256 ->
  sse2_match_tag g t = bw 1 (map (fun b => Z.eqb b t) g).
Proof.
  intros L Ht. unfold sse2_match_tag, mm_cmpeq_epi8, mm_set1_epi8.
  rewrite to_signed_byte by assumption.
  rewrite map2_repeat_r by lia.
  rewrite sse2_movemask by (rewrite map_length; assumption).
  rewrite map_map. f_equal. apply map_ext. intros b. unfold hi. destruct (b =? t); reflexivity.
Qed.

Lemma hi_special_b : forall b, 0 <= b < 256 -> Bool.eqb (hi b) (is_special b) = true.
Proof. apply byte_forall. vm_compute. reflexivity. Qed.

Lemma hi_special b : 0 <= b < 256 -> hi b = is_special b.
Proof. intros H. apply Bool.eqb_prop. apply hi_special_b; assumption. Qed.

Lemma sse2_match_eod_bw g : group_ok 16 g ->
  sse2_match_empty_or_deleted g = bw 1 (map is_special g).
Proof.
  intros [L V]. unfold sse2_match_empty_or_deleted. rewrite sse2_movemask by assumption.
  f_equal. apply map_ext_Forall with (Q := valid_ctrl); [|assumption].
  intros b Hb. apply hi_special. apply valid_ctrl_byte; assumption.
Qed.

Lemma sse2_match_full_bw g : group_ok 16 g ->
  sse2_match_full g = bw 1 (map is_full g).
Proof.
  intros G. pose proof G as [L V]. unfold sse2_match_full, bm_invert. rewrite sse2_match_eod_bw by assumption.
  replace sse2_BITMASK_MASK with (bw 1 (map (fun _ => true) (map is_special g))).
  - rewrite bw_invert by lia. rewrite map_map. f_equal. apply map_ext. intros b.
    unfold is_special, is_full, tag_is_special, tag_is_full. apply negb_involutive.
  - rewrite map_map. clear V G.
    do 17 (destruct g as [|? g]; cbn [length] in L; try lia). reflexivity.
Qed.

(* ------------------------------------------------------------------------------------------ *)
(* views                                                                                        *)
(* ------------------------------------------------------------------------------------------ *)
Lemma sse2_stride : bk_stride sse2_backend = 1. Proof. reflexivity. Qed.
Lemma sse2_bits : bk_bits sse2_backend = 1 * Z.of_nat 16. Proof. reflexivity. Qed.

Lemma sse2_iter bs : length bs = 16%nat -> bm_iter sse2_backend (bw 1 bs) = bidx 0 bs.
Proof.
  intros L. unfold bm_iter, bm_into_iter.
  change (bk_iter_mask sse2_backend) with (Z.ones 16).
  rewrite Z.land_ones by lia. rewrite Z.mod_small by (change (2 ^ 16) with 65536; apply bw1_small; assumption).
  apply (iter_bw sse2_backend 1 16); [lia|reflexivity|reflexivity|assumption].
Qed.

Theorem sse2_exact_thm : ExactMatchTag sse2_backend.
Proof.
  intros g t [L V] Ht. unfold g_match_tag. cbn [bk_match_tag sse2_backend].
  cbn [bk_width sse2_backend] in L.
  rewrite sse2_match_tag_bw by lia.
  rewrite sse2_iter by (rewrite map_length; assumption).
  symmetry. apply indices_map.
Qed.

Lemma In_indices p g j : In j (indices p g) <-> (j < length g)%nat /\ p (nth j g 0) = true.
Proof.
  rewrite indices_map, bidx_In, map_length, Nat.sub_0_r. split; intros [H1 H2]; (split; [lia|]).
  - rewrite (nth_map_lt p g j 0 false) in H2 by lia. exact H2.
  - rewrite (nth_map_lt p g j 0 false) by lia. exact H2.
Qed.

Lemma sse2_convert_byte_b : forall b, 0 <= b < 256 ->
  (Z.lor (if Z.gtb (to_signed 8 0) (to_signed 8 b) then 255 else 0) 128 =? byte_convert b) = true.
Proof. apply byte_forall. vm_compute. reflexivity. Qed.

Theorem sse2_backend_spec_thm : BackendSpec sse2_backend.
Proof.
  pose proof sse2_stride as Hst. pose proof sse2_bits as Hbi.
  assert (H1 : 1 <= 1) by lia.
  constructor.
  - cbn. lia.
  - (* match_full *)
    intros g G. unfold g_match_full. cbn [bk_match_full bk_width sse2_backend] in *.
    rewrite sse2_match_full_bw by assumption. destruct G as [L V].
    rewrite sse2_iter by (rewrite map_length; assumption). symmetry; apply indices_map.
  - (* any_empty *)
    intros g [L V]. unfold g_any_empty, bm_any_bit_set. cbn [bk_match_empty bk_width sse2_backend] in *.
    unfold sse2_match_empty. rewrite sse2_match_tag_bw by (unfold tag_EMPTY; lia).
    apply (existsb_map 1 H1).
  - (* lowest_eod *)
    intros g G. unfold g_lowest_eod. cbn [bk_match_eod bk_width sse2_backend] in *.
    rewrite sse2_match_eod_bw by assumption.
    rewrite (lowest_bw sse2_backend 1 16 H1 Hst).
    unfold first_index. rewrite (first_from_map 1 H1). reflexivity.
  - (* empty_lz *)
    intros g [L V]. unfold g_empty_lz. cbn [bk_match_empty bk_width sse2_backend] in *.
    unfold sse2_match_empty. rewrite sse2_match_tag_bw by (unfold tag_EMPTY; lia).
    rewrite (lz_bw sse2_backend 1 16 H1 Hst Hbi) by (rewrite map_length; assumption).
    rewrite rev_map_comm. symmetry. apply (prefix_len_map is_empty).
  - (* empty_tz *)
    intros g [L V]. unfold g_empty_tz. cbn [bk_match_empty bk_width sse2_backend] in *.
    unfold sse2_match_empty. rewrite sse2_match_tag_bw by (unfold tag_EMPTY; lia).
    rewrite (tz_bw sse2_backend 1 16 H1 Hst Hbi) by (rewrite map_length; assumption).
    symmetry. apply (prefix_len_map is_empty).
  - (* convert *)
    intros g [L V]. unfold g_convert. cbn [bk_convert bk_width sse2_backend] in *.
    unfold sse2_convert, mm_cmpgt_epi8, mm_or_si128, mm_setzero_si128, mm_set1_epi8.
    rewrite map2_repeat_l by lia. rewrite map2_repeat_r by (rewrite map_length; lia).
    rewrite map_map. apply map_ext_Forall with (Q := valid_ctrl); [|assumption].
    intros b Hb. apply Z.eqb_eq. apply sse2_convert_byte_b. apply valid_ctrl_byte; assumption.
  - (* sorted *)
    intros g t G Ht. rewrite sse2_exact_thm by assumption. rewrite indices_map. apply bidx_sorted.
  - (* bound *)
    intros g t j G Ht Hj. rewrite sse2_exact_thm in Hj by assumption.
    apply In_indices in Hj. destruct G as [L V]. lia.
  - (* complete *)
    intros g t j G Ht Hj E. rewrite sse2_exact_thm by assumption. destruct G as [L V].
    apply In_indices. split; [lia|]. apply Z.eqb_eq; assumption.
  - (* sound *)
    intros g t j G Ht Hj. rewrite sse2_exact_thm in Hj by assumption.
    apply In_indices in Hj. left. apply Z.eqb_eq. apply Hj.
Qed.
