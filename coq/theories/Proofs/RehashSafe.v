(* RehashSafe.v -- rehash_in_place is memory-safe and terminates for EVERY hasher (no lawfulness
   assumption: the hasher may panic, i.e. return None, or return unrelated values on each call).

   H1  prepare_rehash_in_place_spec : FULL -> DELETED, special -> EMPTY, mirror rebuilt.
   H2  RInv, the loop invariant ("DELETED = element not yet re-hashed"), holds after prepare.
   FS  find_insert_slot terminates on any Shape/Mirror table holding a real EMPTY byte.
   H3  rehash_inner_spec, H4 rehash_outer_spec, H5 rehash_guard_spec,
   H6  rehash_in_place_safe (main theorem) and rehash_in_place_no_unwind. *)
From Coq Require Import ZArith List Bool Lia Permutation.
From HB Require Import RsPrelude Sse2 Gen Group Raw Check ArithFacts Triangular WFDefs GroupFacts
  ProbeFacts SafeInsertErase.
Import ListNotations.
Open Scope nat_scope.

(* ---------------------------------------------------------------------------------------- *)
(* bytes                                                                                      *)
(* ---------------------------------------------------------------------------------------- *)
Lemma byte_convert_valid b : valid_ctrl (byte_convert b).
Proof. unfold byte_convert. destruct (is_full b); [apply valid_DELETED|apply valid_EMPTY]. Qed.

Lemma byte_convert_not_full b : is_full (byte_convert b) = false.
Proof. unfold byte_convert. destruct (is_full b); reflexivity. Qed.

Lemma byte_convert_deleted b : is_deleted (byte_convert b) = is_full b.
Proof. unfold byte_convert. destruct (is_full b); reflexivity. Qed.

Lemma byte_convert_EMPTY : byte_convert EMPTY = EMPTY.
Proof. reflexivity. Qed.

Lemma is_deleted_eq b : is_deleted b = true <-> b = DELETED.
Proof. unfold is_deleted. apply Z.eqb_eq. Qed.

Lemma is_empty_eq b : is_empty b = true <-> b = EMPTY.
Proof. unfold is_empty. apply Z.eqb_eq. Qed.

Lemma tag_full_not_deleted hash : tag_full hash <> DELETED.
Proof. pose proof (tag_full_range hash). unfold DELETED, tag_DELETED. lia. Qed.

Lemma tag_full_not_empty hash : tag_full hash <> EMPTY.
Proof. pose proof (tag_full_range hash). unfold EMPTY, tag_EMPTY. lia. Qed.

Lemma count_p_map p (f : Z -> Z) l : count_p p (map f l) = count_p (fun b => p (f b)) l.
Proof.
  induction l as [|b l IH]; [reflexivity|].
  cbn [map]. rewrite !count_p_cons, IH. reflexivity.
Qed.

Lemma count_p_ext p q l : (forall b, p b = q b) -> count_p p l = count_p q l.
Proof.
  intros H. induction l as [|b l IH]; [reflexivity|]. rewrite !count_p_cons, IH, H. reflexivity.
Qed.

Lemma count_p_none p l : (forall b, p b = false) -> count_p p l = 0.
Proof.
  intros H. induction l as [|b l IH]; [reflexivity|]. rewrite count_p_cons, IH, H. reflexivity.
Qed.

(* a power of two that is at least the group width is a multiple of it *)
Lemma pow2_multiple k GW : GWOK GW -> GW <= 2 ^ k -> exists q, 2 ^ k = q * GW.
Proof.
  intros HG Hle.
  assert (H3 : 3 <= k).
  { destruct (Nat.lt_ge_cases k 3) as [Hlt|]; [|assumption].
    assert (Hc : k = 0 \/ k = 1 \/ k = 2) by lia.
    destruct Hc as [-> | [-> | ->]]; cbn in Hle; destruct HG; lia. }
  destruct HG as [-> | ->].
  - exists (2 ^ (k - 3)). replace k with ((k - 3) + 3) at 1 by lia. rewrite Nat.pow_add_r. reflexivity.
  - assert (H4 : 4 <= k).
    { destruct (Nat.eq_dec k 3) as [->|]; [cbn in Hle; lia|lia]. }
    exists (2 ^ (k - 4)). replace k with ((k - 4) + 4) at 1 by lia. rewrite Nat.pow_add_r. reflexivity.
Qed.

(* ---------------------------------------------------------------------------------------- *)
(* H1: prepare_rehash_in_place                                                                *)
(* ---------------------------------------------------------------------------------------- *)
Section Prepare.
  Variable B : backend.
  Variable T : Type.
  Hypothesis HW : WidthOK B.
  Hypothesis HB : BackendSpec B.
  Local Notation GW := (bk_width B).

  Lemma nth_splice (c g : list Z) p j : p + length g <= length c ->
    nth j (firstn p c ++ g ++ skipn (p + length g) c) POISON =
    if (p <=? j) && (j <? p + length g) then nth (j - p) g POISON else nth j c POISON.
  Proof.
    intros Hlen.
    assert (Hl1 : length (firstn p c) = p) by (rewrite firstn_length; lia).
    destruct (Nat.leb_spec p j) as [Hpj|Hpj]; cbn [andb].
    - rewrite app_nth2 by lia. rewrite Hl1.
      destruct (Nat.ltb_spec j (p + length g)) as [Hj|Hj].
      + rewrite app_nth1 by lia. reflexivity.
      + rewrite app_nth2 by lia. rewrite nth_skipn_add. f_equal. lia.
    - rewrite app_nth1 by lia. apply nth_firstn_lt. exact Hpj.
  Qed.

  Lemma convert_groups_spec : forall n (c : list Z) p,
    Forall valid_ctrl c -> p + n * GW <= length c ->
    length (convert_groups B n c p) = length c /\
    Forall valid_ctrl (convert_groups B n c p) /\
    forall j, nth j (convert_groups B n c p) POISON =
              if (p <=? j) && (j <? p + n * GW) then byte_convert (nth j c POISON) else nth j c POISON.
  Proof.
    induction n as [|n IH]; intros c p Hv Hlen.
    - cbn [convert_groups]. split; [reflexivity|]. split; [exact Hv|].
      intros j. destruct (Nat.leb_spec p j), (Nat.ltb_spec j (p + 0 * GW)); cbn [andb]; try reflexivity; lia.
    - cbn [convert_groups].
      set (g := firstn GW (skipn p c)).
      assert (Hg : length g = GW).
      { unfold g. rewrite firstn_length, skipn_length. cbn [Nat.mul] in Hlen. lia. }
      assert (Hok : group_ok GW g).
      { split; [exact Hg|]. unfold g. apply Forall_firstn_, Forall_skipn_. exact Hv. }
      rewrite (bs_convert B HB g Hok).
      set (g' := map byte_convert g).
      assert (Hg' : length g' = GW) by (unfold g'; rewrite map_length; exact Hg).
      set (c' := firstn p c ++ g' ++ skipn (p + GW) c).
      assert (Hc' : length c' = length c).
      { unfold c'. rewrite !app_length, firstn_length, skipn_length, Hg'. cbn [Nat.mul] in Hlen. lia. }
      assert (Hv' : Forall valid_ctrl c').
      { unfold c'. apply Forall_app. split; [apply Forall_firstn_; exact Hv|].
        apply Forall_app. split; [|apply Forall_skipn_; exact Hv].
        unfold g'. apply Forall_forall. intros x Hx. apply in_map_iff in Hx as (b & <- & _).
        apply byte_convert_valid. }
      assert (Hn' : forall j, nth j c' POISON =
                 if (p <=? j) && (j <? p + GW) then byte_convert (nth j c POISON) else nth j c POISON).
      { intros j. unfold c'.
        replace (skipn (p + GW) c) with (skipn (p + length g') c) by (rewrite Hg'; reflexivity).
        rewrite nth_splice by (rewrite Hg'; cbn [Nat.mul] in Hlen; lia).
        rewrite Hg'.
        destruct (Nat.leb_spec p j) as [Hpj|Hpj]; cbn [andb]; [|reflexivity].
        destruct (Nat.ltb_spec j (p + GW)) as [Hj|Hj]; [|reflexivity].
        unfold g'. rewrite (nth_indep _ POISON (byte_convert POISON)) by (rewrite map_length; lia).
        rewrite map_nth. f_equal. unfold g. rewrite nth_firstn_lt by lia. rewrite nth_skipn_add. f_equal. lia. }
      destruct (IH c' (p + GW) Hv' ltac:(rewrite Hc'; cbn [Nat.mul] in Hlen; lia)) as (IH1 & IH2 & IH3).
      split; [rewrite IH1; exact Hc'|]. split; [exact IH2|].
      intros j. rewrite IH3, Hn'. cbn [Nat.mul].
      destruct (Nat.leb_spec (p + GW) j), (Nat.ltb_spec j (p + GW + n * GW)),
               (Nat.leb_spec p j), (Nat.ltb_spec j (p + GW)), (Nat.ltb_spec j (p + (GW + n * GW)));
        cbn [andb]; try reflexivity; lia.
  Qed.

  Theorem prepare_rehash_in_place_spec t : Shape B T t -> Mirror B T t ->
    exists t0, prepare_rehash_in_place B T t = Ok t0 /\
      mask t0 = mask t /\ slots t0 = slots t /\ items t0 = items t /\ growth_left t0 = growth_left t /\
      Shape B T t0 /\ Mirror B T t0 /\
      (forall j, j < nb T t -> byte T t0 j = byte_convert (byte T t j)).
  Proof.
    intros HS HM.
    pose proof HS as (HP & Hl & Hsl & Hv).
    pose proof (Shape_mask_nz B T t HS) as Hnz.
    pose proof (Shape_nb_ge2 B T t HS) as H2.
    pose proof (GW_pos B HW) as HGp.
    unfold prepare_rehash_in_place, is_singleton.
    destruct (Nat.eqb_spec (mask t) 0) as [E0|_]; [contradiction|].
    fold (nb T t).
    set (ng := (nb T t + GW - 1) / GW).
    assert (Hng : (GW <= nb T t /\ ng * GW = nb T t) \/ (nb T t < GW /\ ng = 1)).
    { destruct (Nat.le_gt_cases GW (nb T t)) as [Hbig|Hsmall].
      - left. split; [exact Hbig|]. destruct HP as (k & Hk & Ek).
        destruct (pow2_multiple k GW HW ltac:(lia)) as (q & Eq).
        unfold ng. rewrite Ek, Eq.
        replace (q * GW + GW - 1) with (q * GW + (GW - 1)) by lia.
        rewrite Nat.div_add_l by lia. rewrite Nat.div_small by lia. lia.
      - right. split; [exact Hsmall|]. unfold ng.
        replace (nb T t + GW - 1) with (1 * GW + (nb T t - 1)) by lia.
        rewrite Nat.div_add_l by lia. rewrite Nat.div_small by lia. reflexivity. }
    assert (Hfit : 0 + ng * GW <= length (ctrl t)) by (destruct Hng as [[_ ->] | [_ ->]]; lia).
    destruct (Nat.leb_spec (ng * GW) (length (ctrl t))) as [_|Hbad]; [|lia].
    destruct (convert_groups_spec ng (ctrl t) 0 Hv Hfit) as (Hl1 & Hv1 & Hn1).
    set (c1 := convert_groups B ng (ctrl t) 0) in *.
    eexists. split; [reflexivity|].
    set (t0 := with_ctrl T t _).
    assert (Enb : nb T t0 = nb T t) by reflexivity.
    cbn [Nat.add] in Hn1.
    assert (Hc1 : forall j, j < ng * GW -> nth j c1 POISON = byte_convert (byte T t j)).
    { intros j Hj. rewrite Hn1. cbn [Nat.leb andb].
      destruct (Nat.ltb_spec j (ng * GW)); [reflexivity|lia]. }
    destruct Hng as [[Hbig Eng] | [Hsmall Eng]].
    - (* table at least as large as a group *)
      destruct (Nat.ltb_spec (nb T t) GW) as [Hlt|_]; [lia|].
      rewrite Eng in Hc1.
      assert (Hb0 : forall j, byte T t0 j =
                 if j <? nb T t then byte_convert (byte T t j) else nth (j - nb T t) (firstn GW c1) POISON).
      { intros j. unfold byte, t0. cbn [ctrl with_ctrl].
        assert (Hlf : length (firstn (nb T t) c1) = nb T t) by (rewrite firstn_length; lia).
        destruct (Nat.ltb_spec j (nb T t)) as [Hj|Hj].
        - rewrite app_nth1 by lia. rewrite nth_firstn_lt by exact Hj. apply Hc1. exact Hj.
        - rewrite app_nth2 by lia. rewrite Hlf. reflexivity. }
      repeat split; try reflexivity.
      + exact HP.
      + rewrite Enb. unfold t0. cbn [ctrl with_ctrl]. rewrite app_length, !firstn_length. lia.
      + exact Hsl.
      + unfold t0. cbn [ctrl with_ctrl]. apply Forall_app. split; apply Forall_firstn_; exact Hv1.
      + unfold Mirror. rewrite Enb. destruct (Nat.leb_spec GW (nb T t)); [|lia].
        intros i Hi. rewrite !Hb0.
        destruct (Nat.ltb_spec (nb T t + i) (nb T t)); [lia|].
        destruct (Nat.ltb_spec i (nb T t)); [|lia].
        replace (nb T t + i - nb T t) with i by lia.
        rewrite nth_firstn_lt by exact Hi. apply Hc1. lia.
      + intros j Hj. rewrite Hb0. destruct (Nat.ltb_spec j (nb T t)); [reflexivity|lia].
    - (* table smaller than a group *)
      destruct (Nat.ltb_spec (nb T t) GW) as [_|Hge]; [|lia].
      rewrite Eng, Nat.mul_1_l in Hc1.
      assert (Hsk : skipn (GW + nb T t) c1 = []).
      { apply skipn_all2. lia. }
      assert (Hb0 : forall j, byte T t0 j =
                 if j <? GW then byte_convert (byte T t j)
                 else if j <? GW + nb T t then byte_convert (byte T t (j - GW)) else POISON).
      { intros j. unfold byte at 1. unfold t0. cbn [ctrl with_ctrl]. fold (nb T t). rewrite Hsk, app_nil_r.
        assert (Hlf : length (firstn GW c1) = GW) by (rewrite firstn_length; lia).
        destruct (Nat.ltb_spec j GW) as [Hj|Hj].
        - rewrite app_nth1 by lia. rewrite nth_firstn_lt by exact Hj. apply Hc1. exact Hj.
        - rewrite app_nth2 by lia. rewrite Hlf.
          destruct (Nat.ltb_spec j (GW + nb T t)) as [Hj2|Hj2].
          + rewrite nth_firstn_lt by lia. apply Hc1. lia.
          + apply nth_overflow. rewrite firstn_length. lia. }
      pose proof HM as HM'. unfold Mirror in HM'.
      destruct (Nat.leb_spec GW (nb T t)) as [Hle|_]; [lia|]. destruct HM' as [HM1 HM2].
      repeat split; try reflexivity.
      + exact HP.
      + rewrite Enb. unfold t0. cbn [ctrl with_ctrl]. fold (nb T t). rewrite Hsk, app_nil_r.
        rewrite app_length, !firstn_length. lia.
      + exact Hsl.
      + unfold t0. cbn [ctrl with_ctrl]. apply Forall_app. split; [apply Forall_firstn_; exact Hv1|].
        apply Forall_app. split; [apply Forall_firstn_; exact Hv1|apply Forall_skipn_; exact Hv1].
      + unfold Mirror. rewrite Enb. destruct (Nat.leb_spec GW (nb T t)); [lia|]. split.
        * intros i Hi. rewrite Hb0. destruct (Nat.ltb_spec i GW); [|lia].
          rewrite (HM1 i Hi). reflexivity.
        * intros i Hi. rewrite !Hb0.
          destruct (Nat.ltb_spec (GW + i) GW); [lia|].
          destruct (Nat.ltb_spec (GW + i) (GW + nb T t)); [|lia].
          destruct (Nat.ltb_spec i GW); [|lia].
          replace (GW + i - GW) with i by lia. reflexivity.
      + intros j Hj. rewrite Hb0. destruct (Nat.ltb_spec j GW); [reflexivity|lia].
  Qed.
End Prepare.

Lemma count_p_pos p (l : list Z) i d : i < length l -> p (nth i l d) = true -> 0 < count_p p l.
Proof.
  intros Hi Hp. rewrite (upd_split l i d Hi). rewrite count_p_app, count_p_cons, Hp. lia.
Qed.

(* ---------------------------------------------------------------------------------------- *)
(* H2: the loop invariant                                                                     *)
(* ---------------------------------------------------------------------------------------- *)
Section Rehash.
  Variable B : backend.
  Variable T : Type.
  Hypothesis HW : WidthOK B.
  Hypothesis HB : BackendSpec B.
  Variable needs_drop : bool.
  Variable hasher : T -> option Z.
  Local Notation GW := (bk_width B).

  Definition nfull (t : table T) : nat := count_p is_full (real_ctrl T t).
  Definition ndel (t : table T) : nat := count_p is_deleted (real_ctrl T t).

  (* DELETED = "holds an element that has not been re-hashed yet" *)
  Definition RInv (t : table T) : Prop :=
    Shape B T t /\ Mirror B T t /\
    (forall j, j < nb T t ->
       (slot T t j <> None <-> (is_full (byte T t j) = true \/ byte T t j = DELETED))) /\
    items t = zn (nfull t + ndel t) /\
    (items t <= z_cap (mask t))%Z.

  Lemma RInv_mask_nz t : RInv t -> mask t <> 0.
  Proof. intros (HS & _). exact (Shape_mask_nz B T t HS). Qed.

  Lemma real_valid t : Shape B T t -> Forall valid_ctrl (real_ctrl T t).
  Proof. intros (_ & _ & _ & Hv). unfold real_ctrl. apply Forall_firstn_. exact Hv. Qed.

  Lemma RInv_empty t : RInv t -> exists i, i < nb T t /\ byte T t i = EMPTY.
  Proof.
    intros (HS & _ & _ & Hit & Hcap).
    pose proof (z_cap_lt (mask t) (Shape_MaskOK B T t HS)) as Hc.
    pose proof (real_ctrl_length B T t HS) as Hlen.
    pose proof (count_cover _ (real_valid t HS)) as Hcov. rewrite Hlen in Hcov.
    unfold nfull, ndel, zn, nb, buckets in *.
    destruct (count_pos_exists is_empty (real_ctrl T t) ltac:(lia)) as (i & Hi & He).
    rewrite Hlen in Hi. exists i. split; [exact Hi|].
    rewrite (real_ctrl_nth B T t i 0%Z Hi HS) in He. apply is_empty_eq. exact He.
  Qed.

  Lemma ndel_pos t i : Shape B T t -> i < nb T t -> byte T t i = DELETED -> 0 < ndel t.
  Proof.
    intros HS Hi Hb. unfold ndel. apply (count_p_pos is_deleted _ i POISON).
    - rewrite (real_ctrl_length B T t HS). exact Hi.
    - rewrite (real_ctrl_nth B T t i POISON Hi HS), Hb. reflexivity.
  Qed.

  Lemma ndel_le t : Shape B T t -> ndel t <= nb T t.
  Proof. intros HS. apply (count_real_le B T is_deleted t HS). Qed.

  Lemma ndel_zero t : Shape B T t -> (forall j, j < nb T t -> byte T t j <> DELETED) -> ndel t = 0.
  Proof.
    intros HS H. destruct (Nat.eq_dec (ndel t) 0) as [E|E]; [exact E|exfalso].
    destruct (count_pos_exists is_deleted (real_ctrl T t) ltac:(unfold ndel in E; lia)) as (i & Hi & Hd).
    rewrite (real_ctrl_length B T t HS) in Hi.
    rewrite (real_ctrl_nth B T t i 0%Z Hi HS) in Hd. apply is_deleted_eq in Hd.
    exact (H i Hi Hd).
  Qed.

  Theorem prepare_RInv t : SafeWF B T t -> mask t <> 0 ->
    exists t0, prepare_rehash_in_place B T t = Ok t0 /\
      mask t0 = mask t /\ slots t0 = slots t /\ items t0 = items t /\ RInv t0 /\
      (forall j, j < nb T t -> byte T t0 j = byte_convert (byte T t j)).
  Proof.
    intros H Hm. destruct (SafeWF_alloc B T t H Hm) as (HS & HM & (Hit & Hsum & Hgl & Hsl)).
    destruct (prepare_rehash_in_place_spec B T HW HB t HS HM)
      as (t0 & E & Em & Esl & Eit & Egl & HS0 & HM0 & Hb0).
    exists t0. split; [exact E|]. split; [exact Em|]. split; [exact Esl|]. split; [exact Eit|].
    split; [|exact Hb0].
    assert (Enb : nb T t0 = nb T t) by (unfold nb, buckets; rewrite Em; reflexivity).
    assert (Er : real_ctrl T t0 = map byte_convert (real_ctrl T t)).
    { apply (nth_ext _ _ POISON (byte_convert POISON)).
      - rewrite map_length, (real_ctrl_length B T t0 HS0), (real_ctrl_length B T t HS). exact Enb.
      - intros j Hj. rewrite (real_ctrl_length B T t0 HS0), Enb in Hj.
        rewrite (real_ctrl_nth B T t0 j POISON) by (rewrite ?Enb; assumption).
        rewrite map_nth. rewrite (real_ctrl_nth B T t j POISON Hj HS). apply Hb0. exact Hj. }
    split; [exact HS0|]. split; [exact HM0|]. split; [|split].
    - intros j Hj. rewrite Enb in Hj. rewrite (Hb0 j Hj). unfold slot. rewrite Esl. fold (slot T t j).
      rewrite (Hsl j Hj). unfold byte_convert. destruct (is_full (byte T t j)).
      + split; [intros _; right; reflexivity|reflexivity].
      + split; [discriminate|]. intros [X | X]; discriminate X.
    - unfold nfull, ndel. rewrite Er, !count_p_map.
      rewrite (count_p_none (fun b => is_full (byte_convert b))) by apply byte_convert_not_full.
      rewrite (count_p_ext (fun b => is_deleted (byte_convert b)) is_full) by apply byte_convert_deleted.
      rewrite Eit. exact Hit.
    - rewrite Eit, Em. unfold zn in *. lia.
  Qed.

  (* ---------------------------------------------------------------------------------------- *)
  (* FS: find_insert_slot on a table that holds a real EMPTY byte (Count not needed)            *)
  (* ---------------------------------------------------------------------------------------- *)
  Section FS.
    Variable t : table T.
    Hypothesis HS : Shape B T t.
    Hypothesis HM : Mirror B T t.
    Hypothesis HE : exists i, i < nb T t /\ byte T t i = EMPTY.
    Variable hash : Z.

    Local Notation p0 := (n_probe_start (mask t) hash).
    Local Notation PS j := (pseq B (mask t) p0 j).

    Lemma reach_empty_E : exists j, j < probe_fuel B T t /\ HasEmpty B T t hash j.
    Proof.
      destruct HE as (i & Hi & Ei).
      destruct (Nat.le_gt_cases GW (nb T t)) as [Hbig|Hsmall].
      - destruct (coverage_offset B T HW t hash i HS Hbig Hi) as (j & m & Hj & Hm & E).
        exists j. split; [unfold probe_fuel; fold (nb T t); lia|].
        destruct (load_view B T t _ HS HM (PS_lt B T t HS hash j)) as (g & Hg & Hlen & Hok & Hv & _).
        exists g. split; [exact Hg|]. apply existsb_exists. exists (nth m g 0%Z).
        split; [apply nth_In; lia|]. rewrite Hv by assumption.
        unfold ppos in E. rewrite E, Ei. reflexivity.
      - exists 0. split; [unfold probe_fuel; lia|].
        pose proof (PS_lt B T t HS hash 0) as Hp.
        destruct (load_view B T t _ HS HM Hp) as (g & Hg & Hlen & Hok & _ & Hv).
        exists g. split; [exact Hg|]. apply existsb_exists.
        set (m := nb T t - fst (PS 0)). exists (nth m g 0%Z).
        split; [apply nth_In; lia|]. rewrite (Hv Hsmall m ltac:(lia)).
        destruct (Nat.ltb_spec (fst (PS 0) + m) (nb T t)); [lia|].
        destruct (Nat.ltb_spec (fst (PS 0) + m) GW); [reflexivity|lia].
    Qed.

    Lemma fix_insert_slot_ok_E s : SlotCand B T t s ->
      exists s', fix_insert_slot B T t s = Ok s' /\ s' < nb T t /\ is_special (byte T t s') = true.
    Proof.
      intros (Hs & Hfull). unfold fix_insert_slot, is_bucket_full.
      rewrite (ctrl_at_ok B T t HS s Hs). cbn [bind].
      destruct (is_full (byte T t s)) eqn:F.
      - specialize (Hfull eq_refl).
        destruct (load_aligned_0_view B T HW t HS HM) as (g0 & Hg0 & Hok & Hreal & _).
        rewrite Hg0. cbn [bind]. rewrite (bs_lowest_eod B HB g0 Hok).
        destruct HE as (i0 & Hi0 & Ei0).
        assert (Hsp : is_special (nth i0 g0 0%Z) = true).
        { rewrite Hreal by lia. rewrite Ei0. reflexivity. }
        destruct (first_index_le is_special g0 i0 ltac:(destruct Hok as [-> _]; lia) Hsp) as (i & Ei & Hle).
        rewrite Ei. exists i. split; [reflexivity|]. split; [lia|].
        destruct (first_index_Some _ _ _ Ei) as (_ & Hspi). rewrite Hreal in Hspi by lia. exact Hspi.
      - exists s. split; [reflexivity|]. split; [exact Hs|]. rewrite is_special_negb_full, F. reflexivity.
    Qed.

    Lemma find_insert_slot_loop_ok_E : forall n j,
      (exists j', j <= j' < j + n /\ HasEmpty B T t hash j') ->
      exists i, find_insert_slot_loop B T n t (fst (PS j)) (snd (PS j)) = Ok i /\
                i < nb T t /\ is_special (byte T t i) = true.
    Proof.
      induction n as [|n IH]; intros j (j' & Hj' & He); [lia|].
      cbn [find_insert_slot_loop].
      destruct (load_PS B T t HS HM hash j) as (g & Hg & Hok). rewrite Hg. cbn [bind].
      destruct (find_insert_slot_in_group B T t g (fst (PS j))) as [s|] eqn:Es.
      - apply fix_insert_slot_ok_E.
        apply (in_group_cand B T HW HB t HS HM _ g s (PS_lt B T t HS hash j) Hg Es).
      - rewrite <- pseq_S. destruct (PS (S j)) as [p' s'] eqn:EPS.
        specialize (IH (S j)). rewrite EPS in IH. cbn [fst snd] in IH. apply IH.
        exists j'. split; [|exact He].
        destruct (Nat.eq_dec j' j) as [->|]; [|lia].
        destruct (in_group_some B T HB t HS _ g (PS_lt B T t HS hash j) Hg (HasEmpty_load B T t hash j g He Hg))
          as (s & Es').
        rewrite Es' in Es. discriminate Es.
    Qed.

    (* TERMINATION of find_insert_slot without Count: a real bucket holding EMPTY or DELETED *)
    Theorem find_insert_slot_terminates_E :
      exists i, find_insert_slot B T t hash = Ok i /\ i < nb T t /\ is_special (byte T t i) = true.
    Proof.
      unfold find_insert_slot. destruct reach_empty_E as (j & Hj & He).
      apply (find_insert_slot_loop_ok_E (probe_fuel B T t) 0). exists j. split; [lia|exact He].
    Qed.
  End FS.

  (* ---------------------------------------------------------------------------------------- *)
  (* list surgery: exchanging two positions is a permutation                                    *)
  (* ---------------------------------------------------------------------------------------- *)
  Lemma nth_upd2 {A} (l : list A) i j x y k d : i < length l -> j < length l ->
    nth k (upd (upd l i x) j y) d = if k =? j then y else if k =? i then x else nth k l d.
  Proof.
    intros Hi Hj. rewrite nth_upd by (rewrite upd_length; lia). rewrite nth_upd by lia. reflexivity.
  Qed.

  Lemma upd2_length {A} (l : list A) i j x y : i < length l -> j < length l ->
    length (upd (upd l i x) j y) = length l.
  Proof. intros Hi Hj. rewrite upd_length by (rewrite upd_length; lia). apply upd_length. lia. Qed.

  Lemma upd_comm {A} (l : list A) i j x y : i <> j -> i < length l -> j < length l ->
    upd (upd l i x) j y = upd (upd l j y) i x.
  Proof.
    intros Hne Hi Hj. apply (nth_ext _ _ x x).
    - rewrite !upd2_length by lia. reflexivity.
    - intros k _. rewrite !nth_upd2 by lia.
      destruct (Nat.eqb_spec k j), (Nat.eqb_spec k i); try reflexivity; lia.
  Qed.

  Lemma upd_app_len {A} (l1 l2 : list A) x y : upd (l1 ++ x :: l2) (length l1) y = l1 ++ y :: l2.
  Proof.
    unfold upd. f_equal.
    - replace (length l1) with (length l1 + 0) by lia. rewrite firstn_app_2. cbn. apply app_nil_r.
    - f_equal. rewrite skipn_app. rewrite (skipn_all2 l1) by lia.
      replace (S (length l1) - length l1) with 1 by lia. reflexivity.
  Qed.

  Lemma swap_decomp {A} (l1 l2 l3 : list A) a b :
    upd (upd (l1 ++ a :: l2 ++ b :: l3) (length l1) b) (length l1 + S (length l2)) a =
    l1 ++ b :: l2 ++ a :: l3.
  Proof.
    rewrite upd_app_len.
    replace (l1 ++ b :: l2 ++ b :: l3) with ((l1 ++ b :: l2) ++ b :: l3)
      by (rewrite <- app_assoc; reflexivity).
    replace (length l1 + S (length l2)) with (length (l1 ++ b :: l2))
      by (rewrite app_length; cbn [length]; lia).
    rewrite upd_app_len. rewrite <- app_assoc. reflexivity.
  Qed.

  Lemma swap_perm_lt {A} (l : list A) i j d : i < j -> j < length l ->
    Permutation (upd (upd l i (nth j l d)) j (nth i l d)) l.
  Proof.
    intros Hij Hj.
    set (a := nth i l d). set (b := nth j l d).
    assert (Hd : exists l1 l2 l3, l = l1 ++ a :: l2 ++ b :: l3 /\ length l1 = i /\
                                  length l1 + S (length l2) = j).
    { set (r := skipn (S i) l).
      assert (Hr : j - S i < length r) by (unfold r; rewrite skipn_length; lia).
      assert (Eb : nth (j - S i) r d = b).
      { unfold r, b. rewrite nth_skipn_add. f_equal. lia. }
      exists (firstn i l), (firstn (j - S i) r), (skipn (S (j - S i)) r).
      split; [|split].
      - rewrite <- Eb. rewrite <- (upd_split r (j - S i) d Hr). apply upd_split. lia.
      - rewrite firstn_length. lia.
      - rewrite !firstn_length. lia. }
    destruct Hd as (l1 & l2 & l3 & El & H1 & H2). clearbody a b. subst l i j.
    rewrite swap_decomp. apply Permutation_app_head.
    apply perm_trans with (b :: a :: l2 ++ l3).
    - apply perm_skip. symmetry. apply Permutation_middle.
    - apply perm_trans with (a :: b :: l2 ++ l3); [apply perm_swap|].
      apply perm_skip. apply Permutation_middle.
  Qed.

  Lemma swap_perm {A} (l : list A) i j d : i <> j -> i < length l -> j < length l ->
    Permutation (upd (upd l i (nth j l d)) j (nth i l d)) l.
  Proof.
    intros Hne Hi Hj. destruct (Nat.lt_ge_cases i j) as [Hlt|Hge].
    - apply swap_perm_lt; assumption.
    - rewrite upd_comm by lia. apply swap_perm_lt; lia.
  Qed.

  Lemma occ_swap (l : list (option T)) i j : i <> j -> i < length l -> j < length l ->
    Permutation (occ (upd (upd l i (nth j l None)) j (nth i l None))) (occ l).
  Proof.
    intros Hne Hi Hj. unfold occ. apply Permutation_flat_map. apply swap_perm; assumption.
  Qed.

  (* ---------------------------------------------------------------------------------------- *)
  (* steps that keep RInv                                                                       *)
  (* ---------------------------------------------------------------------------------------- *)
  Definition b2n (b : bool) : nat := if b then 1 else 0.

  Lemma set_ctrl_counts t i b : Shape B T t -> Mirror B T t -> i < nb T t -> valid_ctrl b ->
    exists t', set_ctrl B T t i b = Ok t' /\
      mask t' = mask t /\ slots t' = slots t /\ items t' = items t /\
      Shape B T t' /\ Mirror B T t' /\
      (forall j, j < nb T t -> byte T t' j = if j =? i then b else byte T t j) /\
      nfull t' + b2n (is_full (byte T t i)) = nfull t + b2n (is_full b) /\
      ndel t' + b2n (is_deleted (byte T t i)) = ndel t + b2n (is_deleted b).
  Proof.
    intros HS HM Hi Hb.
    destruct (set_ctrl_spec B T HW t i b HS HM Hi Hb) as (t' & E & Em & Esl & Eit & _ & HS' & HM' & Hby & _).
    exists t'. repeat (split; [assumption|]). split.
    - exact (count_p_set_ctrl B T HW is_full t i b t' HS HM Hi Hb E).
    - exact (count_p_set_ctrl B T HW is_deleted t i b t' HS HM Hi Hb E).
  Qed.

  Lemma RInv_ext t t2 t' : RInv t ->
    Shape B T t2 -> Mirror B T t2 -> mask t2 = mask t -> items t2 = items t ->
    nfull t2 + ndel t2 = nfull t + ndel t ->
    mask t' = mask t2 -> ctrl t' = ctrl t2 -> items t' = items t2 -> length (slots t') = nb T t ->
    (forall j, j < nb T t ->
       (slot T t' j <> None <-> (is_full (byte T t2 j) = true \/ byte T t2 j = DELETED))) ->
    RInv t'.
  Proof.
    intros (HS & HM & Hsl & Hit & Hcap) HS2 HM2 Em2 Eit2 Ecnt Em' Ec' Eit' Hlen Hsl'.
    assert (Enb2 : nb T t2 = nb T t) by (unfold nb, buckets; rewrite Em2; reflexivity).
    assert (Enb' : nb T t' = nb T t) by (unfold nb, buckets; rewrite Em', Em2; reflexivity).
    assert (Eby : forall j, byte T t' j = byte T t2 j) by (intros j; unfold byte; rewrite Ec'; reflexivity).
    split; [|split; [|split; [|split]]].
    - apply (Shape_ext B T t2 t' Em' Ec'); [|exact HS2].
      destruct HS2 as (_ & _ & Hl2 & _). rewrite Hl2, Hlen. symmetry. exact Enb2.
    - apply (Mirror_ext B T t2 t' Em' Ec' HM2).
    - intros j Hj. rewrite Enb' in Hj. rewrite Eby. apply Hsl'. exact Hj.
    - unfold nfull, ndel in *. rewrite (real_ctrl_ext T t2 t' Em' Ec'). rewrite Eit', Eit2, Ecnt. exact Hit.
    - rewrite Eit', Eit2, Em', Em2. exact Hcap.
  Qed.

  (* ---------------------------------------------------------------------------------------- *)
  (* H3: the inner loop                                                                         *)
  (* ---------------------------------------------------------------------------------------- *)
  Lemma same_group_refl m i hash : n_same_group GW m i i hash = true.
  Proof. unfold n_same_group, is_in_same_group. apply Z.eqb_refl. Qed.

  Theorem rehash_inner_spec : forall fuel t i,
    RInv t -> i < nb T t -> byte T t i = DELETED -> ndel t < fuel ->
    exists t' ok, rehash_inner B T hasher fuel t i = Ok (t', ok) /\
      RInv t' /\ mask t' = mask t /\ items t' = items t /\
      Permutation (occupants T t') (occupants T t) /\
      ndel t' <= ndel t /\
      (forall j, j < nb T t -> byte T t' j = DELETED -> byte T t j = DELETED) /\
      (ok = true -> byte T t' i <> DELETED /\ ndel t' < ndel t) /\
      (ok = false -> exists e, In e (occupants T t) /\ hasher e = None).
  Proof.
    induction fuel as [|f IH]; intros t i HR Hi Hbi Hfuel; [lia|].
    pose proof HR as (HS & HM & Hsl & Hit & Hcap).
    pose proof HS as (_ & _ & Hlen & _).
    pose proof (RInv_mask_nz t HR) as Hnz.
    destruct (slot T t i) as [e|] eqn:Ee;
      [|exfalso; exact (proj2 (Hsl i Hi) (or_intror Hbi) Ee)].
    assert (HinE : In e (occupants T t)).
    { apply occupants_In. exists i. split; [lia|exact Ee]. }
    cbn [rehash_inner]. unfold hash_at.
    rewrite (slot_ref_ok T t i e Hnz ltac:(lia) Ee). cbn [bind].
    destruct (hasher e) as [hash|] eqn:Eh.
    2:{ exists t, false. split; [reflexivity|]. split; [exact HR|]. split; [reflexivity|].
        split; [reflexivity|]. split; [apply Permutation_refl|]. split; [lia|].
        split; [intros j _ X; exact X|]. split; [discriminate|].
        intros _. exists e. split; assumption. }
    destruct (find_insert_slot_terminates_E t HS HM (RInv_empty t HR) hash) as (ni & Eni & Hni & Hsp).
    rewrite Eni. cbn [bind].
    pose proof (ndel_pos t i HS Hi Hbi) as Hdpos.
    destruct (n_same_group GW (mask t) i ni hash) eqn:Esg.
    - (* same probe group: just write the tag *)
      destruct (set_ctrl_counts t i (tag_full hash) HS HM Hi (tag_full_valid hash))
        as (t1 & E1 & Em1 & Esl1 & Eit1 & HS1 & HM1 & Hb1 & Cf & Cd).
      unfold set_ctrl_hash. rewrite E1. cbn [bind].
      rewrite Hbi in Cf, Cd. rewrite tag_full_is_full in Cf.
      rewrite (full_not_deleted _ (tag_full_is_full hash)) in Cd.
      change (is_full DELETED) with false in Cf. change (is_deleted DELETED) with true in Cd.
      cbn [b2n] in Cf, Cd.
      exists t1, true. split; [reflexivity|]. split.
      { apply (RInv_ext t t1 t1 HR HS1 HM1 Em1 Eit1); try reflexivity; [lia|rewrite Esl1; exact Hlen|].
        intros j Hj. unfold slot. rewrite Esl1. fold (slot T t j). rewrite (Hsl j Hj), (Hb1 j Hj).
        destruct (Nat.eqb_spec j i) as [->|Hne]; [|reflexivity].
        rewrite tag_full_is_full. split; intros _; [left; reflexivity|right; exact Hbi]. }
      split; [exact Em1|]. split; [exact Eit1|].
      split; [rewrite !occupants_occ, Esl1; apply Permutation_refl|].
      split; [lia|]. split.
      { intros j Hj. rewrite (Hb1 j Hj). destruct (Nat.eqb_spec j i) as [->|Hne]; [|intros X; exact X].
        intros _. exact Hbi. }
      split; [|discriminate]. intros _. split; [|lia].
      rewrite (Hb1 i Hi), Nat.eqb_refl. apply tag_full_not_deleted.
    - assert (Hne : ni <> i).
      { intros ->. rewrite same_group_refl in Esg. discriminate Esg. }
      rewrite (ctrl_at_ok B T t HS ni Hni). cbn [bind].
      destruct (set_ctrl_counts t ni (tag_full hash) HS HM Hni (tag_full_valid hash))
        as (t1 & E1 & Em1 & Esl1 & Eit1 & HS1 & HM1 & Hb1 & Cf1 & Cd1).
      unfold set_ctrl_hash. rewrite E1. cbn [bind].
      rewrite tag_full_is_full in Cf1. rewrite (full_not_deleted _ (tag_full_is_full hash)) in Cd1.
      assert (Enb1 : nb T t1 = nb T t) by (unfold nb, buckets; rewrite Em1; reflexivity).
      assert (Hnz1 : mask t1 <> 0) by (rewrite Em1; exact Hnz).
      assert (Hb1i : byte T t1 i = DELETED).
      { rewrite (Hb1 i Hi). destruct (Nat.eqb_spec i ni); [lia|exact Hbi]. }
      destruct (special_cases _ (byte_valid B T t ni HS ltac:(lia)) Hsp) as [Hpe | Hpd].
      + (* the target bucket was EMPTY: move the element there *)
        rewrite Hpe in Cf1, Cd1 |- *.
        change (EMPTY =? EMPTY)%Z with true. cbv iota.
        change (is_full EMPTY) with false in Cf1. change (is_deleted EMPTY) with false in Cd1.
        cbn [b2n] in Cf1, Cd1.
        assert (Hnone : slot T t ni = None).
        { destruct (slot T t ni) eqn:En; [|reflexivity]. exfalso.
          assert (X : slot T t ni <> None) by (rewrite En; discriminate).
          apply (Hsl ni Hni) in X. rewrite Hpe in X. destruct X as [X | X]; discriminate X. }
        destruct (set_ctrl_counts t1 i EMPTY HS1 HM1 ltac:(lia) valid_EMPTY)
          as (t2 & E2 & Em2 & Esl2 & Eit2 & HS2 & HM2 & Hb2 & Cf2 & Cd2).
        rewrite E2. cbn [bind].
        rewrite Hb1i in Cf2, Cd2.
        change (is_full DELETED) with false in Cf2. change (is_deleted DELETED) with true in Cd2.
        change (is_full EMPTY) with false in Cf2. change (is_deleted EMPTY) with false in Cd2.
        cbn [b2n] in Cf2, Cd2.
        assert (Ee2 : slot T t2 i = Some e) by (unfold slot; rewrite Esl2, Esl1; exact Ee).
        assert (Hnz2 : mask t2 <> 0) by (rewrite Em2; exact Hnz1).
        assert (Hlen2 : length (slots t2) = nb T t) by (rewrite Esl2, Esl1; exact Hlen).
        rewrite (slot_ref_ok T t2 i e Hnz2 ltac:(lia) Ee2). cbn [bind].
        rewrite (slot_write_ok T t2 ni e Hnz2 ltac:(lia)). cbn [bind].
        eexists _, true. split; [reflexivity|].
        set (t' := with_slots T (with_slots T t2 _) _).
        assert (Eslots : slots t' = upd (upd (slots t) ni (Some e)) i None).
        { unfold t'. cbn [slots with_slots]. rewrite Esl2, Esl1. reflexivity. }
        assert (Eby : forall j, byte T t' j = byte T t2 j) by reflexivity.
        assert (Hby2 : forall j, j < nb T t ->
                  byte T t2 j = if j =? i then EMPTY else if j =? ni then tag_full hash else byte T t j).
        { intros j Hj. rewrite (Hb2 j ltac:(lia)), (Hb1 j Hj). reflexivity. }
        split.
        { apply (RInv_ext t t2 t' HR HS2 HM2 (eq_trans Em2 Em1) (eq_trans Eit2 Eit1)); try reflexivity.
          - lia.
          - rewrite Eslots, upd2_length; lia.
          - intros j Hj. unfold slot. rewrite Eslots, nth_upd2 by lia. rewrite (Hby2 j Hj).
            destruct (Nat.eqb_spec j i) as [->|Hji].
            + split; [intros X; exfalso; apply X; reflexivity|intros [X | X]; discriminate X].
            + destruct (Nat.eqb_spec j ni) as [->|Hjn].
              * rewrite tag_full_is_full. split; [intros _; left; reflexivity|discriminate].
              * apply (Hsl j Hj). }
        split; [exact (eq_trans Em2 Em1)|]. split; [exact (eq_trans Eit2 Eit1)|].
        split.
        { rewrite !occupants_occ, Eslots.
          pose proof (occ_swap (slots t) ni i Hne ltac:(lia) ltac:(lia)) as P.
          fold (slot T t i) in P. fold (slot T t ni) in P. rewrite Ee, Hnone in P. exact P. }
        change (ndel t') with (ndel t2).
        split; [lia|]. split.
        { intros j Hj. rewrite Eby, (Hby2 j Hj).
          destruct (Nat.eqb_spec j i) as [->|Hji]; [intros _; exact Hbi|].
          destruct (Nat.eqb_spec j ni) as [->|Hjn]; [|intros X; exact X].
          intros X. exfalso. exact (tag_full_not_deleted hash X). }
        split; [|discriminate]. intros _. split; [|lia].
        rewrite Eby, (Hby2 i Hi), Nat.eqb_refl. discriminate.
      + (* the target bucket holds another not-yet-rehashed element: swap and go on *)
        rewrite Hpd in Cf1, Cd1 |- *.
        change (DELETED =? EMPTY)%Z with false. cbv iota.
        change (is_full DELETED) with false in Cf1. change (is_deleted DELETED) with true in Cd1.
        cbn [b2n] in Cf1, Cd1.
        unfold swap_slots.
        rewrite (nth_error_nth' (slots t1) None) by (rewrite Esl1; lia).
        rewrite (nth_error_nth' (slots t1) None) by (rewrite Esl1; lia).
        rewrite Esl1. cbn [bind].
        set (t2 := with_slots T t1 _).
        assert (Eslots : slots t2 = upd (upd (slots t) i (nth ni (slots t) None)) ni (nth i (slots t) None))
          by reflexivity.
        assert (Eby : forall j, byte T t2 j = byte T t1 j) by reflexivity.
        assert (HR2 : RInv t2).
        { apply (RInv_ext t t1 t2 HR HS1 HM1 Em1 Eit1); try reflexivity.
          - lia.
          - rewrite Eslots, upd2_length; lia.
          - intros j Hj. unfold slot. rewrite Eslots, nth_upd2 by lia. rewrite (Hb1 j Hj).
            destruct (Nat.eqb_spec j ni) as [->|Hjn].
            + fold (slot T t i). rewrite Ee, tag_full_is_full.
              split; [intros _; left; reflexivity|discriminate].
            + destruct (Nat.eqb_spec j i) as [->|Hji].
              * fold (slot T t ni). rewrite (Hsl ni Hni).
                split; intros _; right; assumption.
              * apply (Hsl j Hj). }
        assert (Em2 : mask t2 = mask t) by exact Em1.
        assert (Enb2 : nb T t2 = nb T t) by exact Enb1.
        assert (P2 : Permutation (occupants T t2) (occupants T t)).
        { rewrite !occupants_occ, Eslots. apply occ_swap; lia. }
        destruct (IH t2 i HR2 ltac:(lia) ltac:(rewrite Eby; exact Hb1i)
                    ltac:(change (ndel t2) with (ndel t1); lia))
          as (t' & ok & E' & HR' & Em' & Eit' & P' & Hd' & Hb' & Hok & Hfail).
        change (ndel t2) with (ndel t1) in *.
        exists t', ok. split; [exact E'|]. split; [exact HR'|].
        split; [exact (eq_trans Em' Em2)|]. split; [exact (eq_trans Eit' Eit1)|].
        split; [exact (perm_trans P' P2)|]. split; [lia|]. split.
        { intros j Hj X. specialize (Hb' j ltac:(lia) X). rewrite Eby, (Hb1 j Hj) in Hb'.
          revert Hb'. destruct (Nat.eqb_spec j ni) as [Hjn|Hjn]; intros Hb'; [|exact Hb'].
          exfalso. exact (tag_full_not_deleted hash Hb'). }
        split.
        { intros Hk. destruct (Hok Hk) as [X Y]. split; [exact X|lia]. }
        intros Hk. destruct (Hfail Hk) as (e' & Hin' & Hn'). exists e'. split; [|exact Hn'].
        exact (Permutation_in _ P2 Hin').
  Qed.

  (* ---------------------------------------------------------------------------------------- *)
  (* H4: the outer loop                                                                         *)
  (* ---------------------------------------------------------------------------------------- *)
  Theorem rehash_outer_spec : forall n t i,
    RInv t -> i + n = nb T t -> (forall j, j < i -> byte T t j <> DELETED) ->
    exists t' ok, rehash_outer B T hasher n t i = Ok (t', ok) /\
      RInv t' /\ mask t' = mask t /\ items t' = items t /\
      Permutation (occupants T t') (occupants T t) /\
      (ok = true -> forall j, j < nb T t -> byte T t' j <> DELETED) /\
      (ok = false -> exists e, In e (occupants T t) /\ hasher e = None).
  Proof.
    induction n as [|k IH]; intros t i HR Hn Hpre.
    - exists t, true. split; [reflexivity|]. split; [exact HR|]. split; [reflexivity|].
      split; [reflexivity|]. split; [apply Permutation_refl|]. split; [|discriminate].
      intros _ j Hj. apply Hpre. lia.
    - pose proof HR as (HS & _). cbn [rehash_outer].
      rewrite (ctrl_at_ok B T t HS i ltac:(lia)). cbn [bind].
      destruct (Z.eqb_spec (byte T t i) DELETED) as [Hd|Hnd]; cbn [negb]; cbv iota.
      + destruct (rehash_inner_spec (S (buckets T t)) t i HR ltac:(lia) Hd
                    ltac:(pose proof (ndel_le t HS); unfold nb in *; lia))
          as (t1 & ok & E1 & HR1 & Em1 & Eit1 & P1 & _ & Hb1 & Hok & Hfail).
        rewrite E1. cbn [bind]. destruct ok.
        * destruct (Hok eq_refl) as [Hni _].
          assert (Enb1 : nb T t1 = nb T t) by (unfold nb, buckets; rewrite Em1; reflexivity).
          assert (Hpre1 : forall j, j < S i -> byte T t1 j <> DELETED).
          { intros j Hj. destruct (Nat.eq_dec j i) as [->|Hji]; [exact Hni|].
            intros X. apply (Hpre j ltac:(lia)). apply Hb1; [lia|exact X]. }
          destruct (IH t1 (S i) HR1 ltac:(lia) Hpre1)
            as (t' & ok' & E' & HR' & Em' & Eit' & P' & Hok' & Hfail').
          exists t', ok'. split; [exact E'|]. split; [exact HR'|].
          split; [exact (eq_trans Em' Em1)|]. split; [exact (eq_trans Eit' Eit1)|].
          split; [exact (perm_trans P' P1)|]. split.
          { intros Hk j Hj. apply (Hok' Hk). lia. }
          intros Hk. destruct (Hfail' Hk) as (e & Hin & Hn'). exists e. split; [|exact Hn'].
          exact (Permutation_in _ P1 Hin).
        * exists t1, false. split; [reflexivity|]. split; [exact HR1|]. split; [exact Em1|].
          split; [exact Eit1|]. split; [exact P1|]. split; [discriminate|]. intros _. apply Hfail. reflexivity.
      + assert (Hpre1 : forall j, j < S i -> byte T t j <> DELETED).
        { intros j Hj. destruct (Nat.eq_dec j i) as [->|Hji]; [exact Hnd|]. apply Hpre. lia. }
        exact (IH t (S i) HR ltac:(lia) Hpre1).
  Qed.

  (* ---------------------------------------------------------------------------------------- *)
  (* H5: the guard (repaired source: the reset loop runs whether or not T needs drop)           *)
  (* ---------------------------------------------------------------------------------------- *)
  (* the elements sitting in DELETED buckets i .. i+n-1, in bucket order *)
  Definition del_from (t : table T) (i n : nat) : list T :=
    flat_map (fun j => if is_deleted (byte T t j) then opt_list (slot T t j) else []) (seq i n).

  Lemma del_from_S t i n :
    del_from t i (S n) =
    (if is_deleted (byte T t i) then opt_list (slot T t i) else []) ++ del_from t (S i) n.
  Proof. reflexivity. Qed.

  Lemma del_from_ext t t' : forall n i,
    (forall j, i <= j < i + n -> byte T t' j = byte T t j /\ slot T t' j = slot T t j) ->
    del_from t' i n = del_from t i n.
  Proof.
    induction n as [|n IH]; intros i H; [reflexivity|].
    rewrite !del_from_S. destruct (H i ltac:(lia)) as [-> ->]. f_equal.
    apply IH. intros j Hj. apply H. lia.
  Qed.

  (* when no DELETED byte is left, RInv + the final growth_left assignment is SafeWF *)
  Lemma RInv_finish t : RInv t -> (forall j, j < nb T t -> byte T t j <> DELETED) ->
    SafeWF B T (with_counts T t (items t) (wsub 64 (z_cap (mask t)) (items t))) /\
    wsub 64 (z_cap (mask t)) (items t) = (z_cap (mask t) - items t)%Z.
  Proof.
    intros (HS & HM & Hsl & Hit & Hcap) Hnd.
    pose proof (ndel_zero t HS Hnd) as Hd0.
    pose proof (z_cap_lt (mask t) (Shape_MaskOK B T t HS)) as Hc.
    pose proof (Shape_nb_bound B T t HS) as Hnb. rewrite two_p_62 in Hnb.
    assert (Hw : wsub 64 (z_cap (mask t)) (items t) = (z_cap (mask t) - items t)%Z).
    { unfold wsub. apply wrap_small. rewrite two_p_64. unfold zn, nb, buckets in *. lia. }
    split; [|exact Hw].
    set (t' := with_counts T t _ _).
    apply SafeWF_of_parts.
    - apply (Shape_ext B T t t'); [reflexivity|reflexivity|reflexivity|exact HS].
    - apply (Mirror_ext B T t t'); [reflexivity|reflexivity|exact HM].
    - unfold Count. change (real_ctrl T t') with (real_ctrl T t).
      change (items t') with (items t). change (mask t') with (mask t).
      change (growth_left t') with (wsub 64 (z_cap (mask t)) (items t)). rewrite Hw.
      unfold nfull, ndel in *. rewrite Hd0 in *.
      split; [rewrite Hit; f_equal; lia|]. split; [unfold zn; lia|]. split; [lia|].
      intros j Hj. change (nb T t') with (nb T t) in Hj.
      change (slot T t' j) with (slot T t j). change (byte T t' j) with (byte T t j).
      rewrite (Hsl j Hj). split; [intros [X | X]; [exact X|exfalso; exact (Hnd j Hj X)]|intros X; left; exact X].
  Qed.

  Lemma guard_loop_spec (nd : bool) : forall n t i evs,
    RInv t -> i + n = nb T t -> (forall j, j < i -> byte T t j <> DELETED) ->
    exists t', guard_loop B T nd n t i evs =
                 Ok (t', evs ++ if nd then map EvDrop (del_from t i n) else []) /\
      RInv t' /\ mask t' = mask t /\
      (forall j, j < nb T t -> byte T t' j <> DELETED) /\
      items t' = (items t - zn (length (del_from t i n)))%Z /\
      Permutation (occupants T t) (occupants T t' ++ del_from t i n).
  Proof.
    induction n as [|k IH]; intros t i evs HR Hn Hpre.
    - exists t. cbn [guard_loop]. change (del_from t i 0) with (@nil T). split.
      { destruct nd; cbn [map]; rewrite app_nil_r; reflexivity. }
      split; [exact HR|]. split; [reflexivity|]. split; [intros j Hj; apply Hpre; lia|].
      split; [cbn [length]; unfold zn; lia|]. rewrite app_nil_r. apply Permutation_refl.
    - pose proof HR as (HS & HM & Hsl & Hit & Hcap).
      pose proof HS as (_ & _ & Hlen & _).
      pose proof (RInv_mask_nz t HR) as Hnz.
      assert (Hi : i < nb T t) by lia.
      cbn [guard_loop]. rewrite (ctrl_at_ok B T t HS i Hi). cbn [bind].
      rewrite del_from_S. fold (is_deleted (byte T t i)).
      destruct (is_deleted (byte T t i)) eqn:Hd.
      + apply is_deleted_eq in Hd.
        destruct (slot T t i) as [e|] eqn:Ee;
          [|exfalso; exact (proj2 (Hsl i Hi) (or_intror Hd) Ee)].
        destruct (set_ctrl_counts t i EMPTY HS HM Hi valid_EMPTY)
          as (t1 & E1 & Em1 & Esl1 & Eit1 & HS1 & HM1 & Hb1 & Cf & Cd).
        rewrite E1. cbn [bind].
        rewrite Hd in Cf, Cd.
        change (is_full DELETED) with false in Cf. change (is_deleted DELETED) with true in Cd.
        change (is_full EMPTY) with false in Cf. change (is_deleted EMPTY) with false in Cd.
        cbn [b2n] in Cf, Cd.
        pose proof (z_cap_lt (mask t) (Shape_MaskOK B T t HS)) as Hc.
        pose proof (Shape_nb_bound B T t HS) as Hnbb. rewrite two_p_62 in Hnbb.
        assert (Hw : wsub 64 (items t1) 1 = (items t - 1)%Z).
        { rewrite Eit1. apply wsub1_small. rewrite two_p_62. unfold zn, nb, buckets in *. lia. }
        set (tn := with_counts T (with_slots T t1 (upd (slots t1) i None)) (wsub 64 (items t1) 1) (growth_left t1)).
        assert (Eslots : slots tn = upd (slots t) i None) by (unfold tn; cbn [slots with_counts with_slots]; rewrite Esl1; reflexivity).
        assert (Emn : mask tn = mask t) by exact Em1.
        assert (Enbn : nb T tn = nb T t) by (unfold nb, buckets; rewrite Emn; reflexivity).
        assert (Ebyn : forall j, byte T tn j = byte T t1 j) by reflexivity.
        assert (Esln : forall j, slot T tn j = if j =? i then None else slot T t j).
        { intros j. unfold slot. rewrite Eslots. apply nth_upd. lia. }
        assert (HRn : RInv tn).
        { split; [|split; [|split; [|split]]].
          - apply (Shape_ext B T t1 tn); [reflexivity|reflexivity| |exact HS1].
            rewrite Eslots, Esl1. apply upd_length. lia.
          - apply (Mirror_ext B T t1 tn); [reflexivity|reflexivity|exact HM1].
          - intros j Hj. rewrite Enbn in Hj. rewrite Esln, Ebyn, (Hb1 j Hj).
            destruct (Nat.eqb_spec j i) as [->|Hji]; [|apply (Hsl j Hj)].
            split; [intros X; exfalso; apply X; reflexivity|intros [X | X]; discriminate X].
          - change (items tn) with (wsub 64 (items t1) 1). rewrite Hw.
            change (nfull tn) with (nfull t1). change (ndel tn) with (ndel t1).
            rewrite Hit. unfold zn. lia.
          - change (items tn) with (wsub 64 (items t1) 1). rewrite Hw, Emn. lia. }
        assert (Hpren : forall j, j < S i -> byte T tn j <> DELETED).
        { intros j Hj. rewrite Ebyn, (Hb1 j ltac:(lia)).
          destruct (Nat.eqb_spec j i) as [->|Hji]; [discriminate|]. apply Hpre. lia. }
        assert (Edel : del_from tn (S i) k = del_from t (S i) k).
        { apply del_from_ext. intros j Hj. rewrite Esln, Ebyn, (Hb1 j ltac:(lia)).
          destruct (Nat.eqb_spec j i); [lia|]. split; reflexivity. }
        assert (Ho : Permutation (occupants T t) (e :: occupants T tn)).
        { rewrite !occupants_occ, Eslots. rewrite occ_upd by lia.
          rewrite (occ_split (slots t) i) by lia. fold (slot T t i). rewrite Ee. cbn [opt_list app].
          symmetry. apply Permutation_middle. }
        assert (Hfin : forall evs', exists t',
                  guard_loop B T nd k tn (S i) evs' =
                    Ok (t', evs' ++ if nd then map EvDrop (del_from t (S i) k) else []) /\
                  RInv t' /\ mask t' = mask t /\ (forall j, j < nb T t -> byte T t' j <> DELETED) /\
                  items t' = (items t - zn (length (e :: del_from t (S i) k)))%Z /\
                  Permutation (occupants T t) (occupants T t' ++ e :: del_from t (S i) k)).
        { intros evs'. destruct (IH tn (S i) evs' HRn ltac:(lia) Hpren)
            as (t' & E' & HR' & Em' & Hnd' & Eit' & P').
          rewrite Edel in *. exists t'. split; [exact E'|]. split; [exact HR'|].
          split; [exact (eq_trans Em' Emn)|]. split; [intros j Hj; apply Hnd'; lia|]. split.
          - rewrite Eit'. change (items tn) with (wsub 64 (items t1) 1). rewrite Hw.
            cbn [length]. unfold zn. lia.
          - apply (perm_trans Ho). apply perm_trans with (e :: occupants T t' ++ del_from t (S i) k).
            + apply perm_skip. exact P'.
            + apply Permutation_middle. }
        cbn [opt_list app].
        destruct nd.
        * unfold slot_take.
          assert (Ee1 : slot T t1 i = Some e) by (unfold slot; rewrite Esl1; exact Ee).
          rewrite (slot_ref_ok T t1 i e ltac:(rewrite Em1; exact Hnz) ltac:(rewrite Esl1; lia) Ee1).
          cbn [bind].
          change (with_counts T (with_slots T t1 (upd (slots t1) i None))
                    (wsub 64 (items (with_slots T t1 (upd (slots t1) i None))) 1)
                    (growth_left (with_slots T t1 (upd (slots t1) i None)))) with tn.
          destruct (Hfin (evs ++ [EvDrop e])) as (t' & E' & Hrest).
          exists t'. split; [|exact Hrest]. rewrite E'. cbn [map]. rewrite <- app_assoc. reflexivity.
        * fold tn. destruct (Hfin evs) as (t' & E' & Hrest).
          exists t'. split; [exact E'|exact Hrest].
      + assert (Hnd : byte T t i <> DELETED).
        { intros X. apply is_deleted_eq in X. rewrite X in Hd. discriminate Hd. }
        assert (Hpre1 : forall j, j < S i -> byte T t j <> DELETED).
        { intros j Hj. destruct (Nat.eq_dec j i) as [->|Hji]; [exact Hnd|]. apply Hpre. lia. }
        cbn [app]. exact (IH t (S i) evs HR ltac:(lia) Hpre1).
  Qed.

  Theorem rehash_guard_spec t : RInv t ->
    exists t', rehash_guard B T needs_drop true t =
                 Ok (t', if needs_drop then map EvDrop (del_from t 0 (nb T t)) else []) /\
      SafeWF B T t' /\ mask t' = mask t /\
      (forall j, j < nb T t -> byte T t' j <> DELETED) /\
      items t' = (items t - zn (length (del_from t 0 (nb T t))))%Z /\
      growth_left t' = (z_cap (mask t) - items t')%Z /\
      Permutation (occupants T t) (occupants T t' ++ del_from t 0 (nb T t)).
  Proof.
    intros HR. unfold rehash_guard. rewrite orb_true_r.
    destruct (guard_loop_spec needs_drop (buckets T t) t 0 [] HR eq_refl ltac:(intros j Hj; lia))
      as (t1 & E1 & HR1 & Em1 & Hnd1 & Eit1 & P1).
    rewrite E1. cbn [bind app].
    assert (Enb1 : nb T t1 = nb T t) by (unfold nb, buckets; rewrite Em1; reflexivity).
    destruct (RInv_finish t1 HR1 ltac:(rewrite Enb1; exact Hnd1)) as [HW' Hw].
    eexists. split; [reflexivity|]. split; [exact HW'|]. split; [exact Em1|].
    split; [exact Hnd1|]. split; [exact Eit1|]. split; [|exact P1].
    cbn [growth_left items with_counts]. rewrite Hw, Em1. reflexivity.
  Qed.

  (* ---------------------------------------------------------------------------------------- *)
  (* H6: rehash_in_place                                                                        *)
  (* ---------------------------------------------------------------------------------------- *)
  Definition NoDeleted (t : table T) : Prop := forall j, j < nb T t -> byte T t j <> DELETED.

  (* the detailed form: on unwinding the result also has growth_left = cap - items and no
     DELETED byte, and the dropped elements are listed in bucket order of the interrupted state *)
  Theorem rehash_in_place_full t : SafeWF B T t -> mask t <> 0 ->
    exists t' evs unw, rehash_in_place B T needs_drop hasher true t = Ok (t', evs, unw) /\
      SafeWF B T t' /\ mask t' = mask t /\ NoDeleted t' /\
      growth_left t' = (z_cap (mask t) - items t')%Z /\
      (unw = false -> evs = [] /\ Permutation (occupants T t') (occupants T t) /\ items t' = items t) /\
      (unw = true ->
         (exists tm, RInv tm /\ mask tm = mask t /\ items tm = items t /\
            Permutation (occupants T tm) (occupants T t) /\
            let dropped := del_from tm 0 (nb T tm) in
            Permutation (occupants T tm) (occupants T t' ++ dropped) /\
            evs = (if needs_drop then map EvDrop dropped else []) /\
            items t' = (items t - zn (length dropped))%Z) /\
         (exists e, In e (occupants T t) /\ hasher e = None)).
  Proof.
    intros H Hm.
    destruct (prepare_RInv t H Hm) as (t0 & E0 & Em0 & Esl0 & Eit0 & HR0 & Hb0).
    assert (Eo0 : occupants T t0 = occupants T t) by (rewrite !occupants_occ, Esl0; reflexivity).
    unfold rehash_in_place. rewrite E0. cbn [bind].
    destruct (rehash_outer_spec (buckets T t0) t0 0 HR0 eq_refl ltac:(intros j Hj; lia))
      as (t1 & ok & E1 & HR1 & Em1 & Eit1 & P1 & Hok & Hfail).
    rewrite E1. cbn [bind].
    assert (Enb1 : nb T t1 = nb T t) by (unfold nb, buckets; rewrite Em1, Em0; reflexivity).
    assert (Enb0 : nb T t0 = nb T t) by (unfold nb, buckets; rewrite Em0; reflexivity).
    destruct ok.
    - assert (Hnd : forall j, j < nb T t1 -> byte T t1 j <> DELETED).
      { intros j Hj. apply (Hok eq_refl). lia. }
      destruct (RInv_finish t1 HR1 Hnd) as [HW' Hw].
      eexists _, [], false. split; [reflexivity|]. split; [exact HW'|].
      split; [exact (eq_trans Em1 Em0)|]. split; [exact Hnd|]. split.
      { cbn [growth_left items with_counts]. rewrite Hw, Em1, Em0. reflexivity. }
      split; [|discriminate]. intros _. split; [reflexivity|]. split.
      + change (occupants T (with_counts T t1 _ _)) with (occupants T t1). rewrite <- Eo0. exact P1.
      + cbn [items with_counts]. rewrite Eit1. exact Eit0.
    - destruct (rehash_guard_spec t1 HR1) as (t2 & E2 & HW2 & Em2 & Hnd2 & Eit2 & Egl2 & P2).
      rewrite E2. cbn [bind].
      assert (Enb2 : nb T t2 = nb T t) by (unfold nb, buckets; rewrite Em2, Em1, Em0; reflexivity).
      eexists t2, _, true. split; [reflexivity|]. split; [exact HW2|].
      split; [exact (eq_trans Em2 (eq_trans Em1 Em0))|].
      split; [intros j Hj; apply Hnd2; lia|].
      split; [rewrite Egl2, Em1, Em0; reflexivity|].
      split; [discriminate|]. intros _. split.
      + exists t1. split; [exact HR1|]. split; [exact (eq_trans Em1 Em0)|].
        split; [exact (eq_trans Eit1 Eit0)|]. split; [rewrite <- Eo0; exact P1|].
        cbv zeta. split; [exact P2|]. split; [reflexivity|].
        rewrite Eit2, Eit1, Eit0. reflexivity.
      + destruct (Hfail eq_refl) as (e & Hin & Hn). exists e. split; [|exact Hn].
        rewrite <- Eo0. exact Hin.
  Qed.

  (* MAIN THEOREM: for every hasher, rehash_in_place on an allocated SafeWF table never fails
     (no UB, no OutOfFuel), returns a SafeWF table of the same size, keeps the multiset of
     elements when it completes, and on unwinding loses exactly the elements it reports as
     dropped (or forgotten when T needs no drop) *)
  Theorem rehash_in_place_safe t : SafeWF B T t -> mask t <> 0 ->
    exists t' evs unw, rehash_in_place B T needs_drop hasher true t = Ok (t', evs, unw) /\
      SafeWF B T t' /\ mask t' = mask t /\
      (unw = false -> evs = [] /\ Permutation (occupants T t') (occupants T t) /\
                      items t' = items t /\
                      growth_left t' = (z_cap (mask t) - items t)%Z /\
                      (forall j, j < nb T t -> byte T t' j <> DELETED)) /\
      (unw = true -> exists dropped, Permutation (occupants T t) (occupants T t' ++ dropped) /\
                      evs = (if needs_drop then map EvDrop dropped else []) /\
                      items t' = (items t - zn (length dropped))%Z) /\
      (unw = true -> exists e, In e (occupants T t) /\ hasher e = None).
  Proof.
    intros H Hm.
    destruct (rehash_in_place_full t H Hm) as (t' & evs & unw & E & HW' & Em & Hnd & Egl & Hok & Hunw).
    exists t', evs, unw. split; [exact E|]. split; [exact HW'|]. split; [exact Em|].
    assert (Enb : nb T t' = nb T t) by (unfold nb, buckets; rewrite Em; reflexivity).
    split; [|split].
    - intros Hu. destruct (Hok Hu) as (He & P & Eit). split; [exact He|]. split; [exact P|].
      split; [exact Eit|]. split; [rewrite Egl, Eit; reflexivity|].
      intros j Hj. apply Hnd. lia.
    - intros Hu. destruct (Hunw Hu) as [(tm & _ & _ & _ & Pm & Hd) _]. cbv zeta in Hd.
      destruct Hd as (P & Hev & Eit). eexists. split; [|split; [exact Hev|exact Eit]].
      apply (perm_trans (Permutation_sym Pm)). exact P.
    - intros Hu. exact (proj2 (Hunw Hu)).
  Qed.

  (* a hasher that does not panic on the elements of the table never triggers the guard *)
  Theorem rehash_in_place_no_unwind t : SafeWF B T t -> mask t <> 0 ->
    (forall e, In e (occupants T t) -> hasher e <> None) ->
    exists t', rehash_in_place B T needs_drop hasher true t = Ok (t', [], false) /\
      SafeWF B T t' /\ mask t' = mask t /\
      Permutation (occupants T t') (occupants T t) /\ items t' = items t /\
      growth_left t' = (z_cap (mask t) - items t)%Z /\
      (forall j, j < nb T t -> byte T t' j <> DELETED).
  Proof.
    intros H Hm Hh.
    destruct (rehash_in_place_safe t H Hm) as (t' & evs & unw & E & HW' & Em & Hok & _ & Hfail).
    destruct unw.
    - exfalso. destruct (Hfail eq_refl) as (e & Hin & Hn). exact (Hh e Hin Hn).
    - destruct (Hok eq_refl) as (-> & P & Eit & Egl & Hnd).
      exists t'. split; [exact E|]. split; [exact HW'|]. split; [exact Em|].
      split; [exact P|]. split; [exact Eit|]. split; [exact Egl|exact Hnd].
  Qed.

  (* the property in its negative form: no error of the model is reachable, in particular
     neither undefined behaviour nor exhaustion of the loop bound the code relies on *)
  Corollary rehash_in_place_never_fails t (er : err) : SafeWF B T t -> mask t <> 0 ->
    rehash_in_place B T needs_drop hasher true t <> Fail er.
  Proof.
    intros H Hm. destruct (rehash_in_place_safe t H Hm) as (t' & evs & unw & E & _).
    rewrite E. discriminate.
  Qed.
End Rehash.

Print Assumptions prepare_rehash_in_place_spec.
Print Assumptions prepare_RInv.
Print Assumptions find_insert_slot_terminates_E.
Print Assumptions rehash_inner_spec.
Print Assumptions rehash_outer_spec.
Print Assumptions rehash_guard_spec.
Print Assumptions rehash_in_place_full.
Print Assumptions rehash_in_place_safe.
Print Assumptions rehash_in_place_no_unwind.
Print Assumptions rehash_in_place_never_fails.
