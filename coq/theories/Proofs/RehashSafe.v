(* RehashSafe.v -- rehash_in_place is memory-safe and terminates for EVERY hasher (no lawfulness
   assumption: the hasher may panic, i.e. return None, or return unrelated values on each call).

   H1  prepare_rehash_in_place_spec : FULL -> DELETED, special -> EMPTY, mirror rebuilt.
   H2  RInv, the loop invariant ("DELETED = element not yet re-hashed"), holds after prepare.
   FS  find_insert_slot terminates on any Shape/Mirror table holding a real EMPTY byte.
   H3  rehash_inner_spec, H4 rehash_outer_spec, H5 rehash_guard_spec,
   H6  rehash_in_place_safe (main theorem) and rehash_in_place_no_unwind. *)
From Coq Require Import ZArith List Bool Lia Permutation.
From HB Require Import RsPrelude Sse2 Gen Group Raw Check ArithFacts Triangular WFDefs GroupFacts
  ProbeFacts SafeInsertErase.
Import ListNotations.
Open Scope nat_scope.

(* ---------------------------------------------------------------------------------------- *)
(* bytes                                                                                      *)
(* ---------------------------------------------------------------------------------------- *)
Lemma byte_convert_valid b : valid_ctrl (byte_convert b).
Proof. unfold byte_convert. destruct (is_full b); [apply valid_DELETED|apply valid_EMPTY]. Qed.

Lemma byte_convert_not_full b : is_full (byte_convert b) = false.
Proof. unfold byte_convert. destruct (is_full b); reflexivity. Qed.

Lemma byte_convert_deleted b : is_deleted (byte_convert b) = is_full b.
Proof. unfold byte_convert. destruct (is_full b); reflexivity. Qed.

Lemma byte_convert_EMPTY : byte_convert EMPTY = EMPTY.
Proof. reflexivity. Qed.

Lemma is_deleted_eq b : is_deleted b = true <-> b = DELETED.
Proof. unfold is_deleted. apply Z.eqb_eq. Qed.

Lemma is_empty_eq b : is_empty b = true <-> b = EMPTY.
Proof. unfold is_empty. apply Z.eqb_eq. Qed.

Lemma tag_full_not_deleted hash : tag_full hash <> DELETED.
Proof. pose proof (tag_full_range hash). unfold DELETED, tag_DELETED. lia. Qed.

Lemma tag_full_not_empty hash : tag_full hash <> EMPTY.
Proof. pose proof (tag_full_range hash). unfold EMPTY, tag_EMPTY. lia. Qed.

Lemma count_p_map p (f : Z -> Z) l : count_p p (map f l) = count_p (fun b => p (f b)) l.
Proof.
  induction l as [|b l IH]; [reflexivity|].
  cbn [map]. rewrite !count_p_cons, IH. reflexivity.
Qed.

Lemma count_p_ext p q l : (forall b, p b = q b) -> count_p p l = count_p q l.
Proof.
  intros H. induction l as [|b l IH]; [reflexivity|]. rewrite !count_p_cons, IH, H. reflexivity.
Qed.

Lemma count_p_none p l : (forall b, p b = false) -> count_p p l = 0.
Proof.
  intros H. induction l as [|b l IH]; [reflexivity|]. rewrite count_p_cons, IH, H. reflexivity.
Qed.

(* a power of two that is at least the group width is a multiple of it *)
Lemma pow2_multiple k GW : GWOK GW -> GW <= 2 ^ k -> exists q, 2 ^ k = q * GW.
Proof.
  intros HG Hle.
  assert (H3 : 3 <= k).
  { destruct (Nat.lt_ge_cases k 3) as [Hlt|]; [|assumption].
    assert (Hc : k = 0 \/ k = 1 \/ k = 2) by lia.
    destruct Hc as [-> | [-> | ->]]; cbn in Hle; destruct HG; lia. }
  destruct HG as [-> | ->].
  - exists (2 ^ (k - 3)). replace k with ((k - 3) + 3) at 1 by lia. rewrite Nat.pow_add_r. reflexivity.
  - assert (H4 : 4 <= k).
    { destruct (Nat.eq_dec k 3) as [->|]; [cbn in Hle; lia|lia]. }
    exists (2 ^ (k - 4)). replace k with ((k - 4) + 4) at 1 by lia. rewrite Nat.pow_add_r. reflexivity.
Qed.

(* ---------------------------------------------------------------------------------------- *)
(* H1: prepare_rehash_in_place                                                                *)
(* ---------------------------------------------------------------------------------------- *)
Section Prepare.
  Variable B : backend.
  Variable T : Type.
  Hypothesis HW : WidthOK B.
  Hypothesis HB : BackendSpec B.
  Local Notation GW := (bk_width B).

  Lemma nth_splice (c g : list Z) p j : p + length g <= length c ->
    nth j (firstn p c ++ g ++ skipn (p + length g) c) POISON =
    if (p <=? j) && (j <? p + length g) then nth (j - p) g POISON else nth j c POISON.
  Proof.
    intros Hlen.
    assert (Hl1 : length (firstn p c) = p) by (rewrite firstn_length; lia).
    destruct (Nat.leb_spec p j) as [Hpj|Hpj]; cbn [andb].
    - rewrite app_nth2 by lia. rewrite Hl1.
      destruct (Nat.ltb_spec j (p + length g)) as [Hj|Hj].
      + rewrite app_nth1 by lia. reflexivity.
      + rewrite app_nth2 by lia. rewrite nth_skipn_add. f_equal. lia.
    - rewrite app_nth1 by lia. apply nth_firstn_lt. exact Hpj.
  Qed.

  Lemma convert_groups_spec : forall n (c : list Z) p,
    Forall valid_ctrl c -> p + n * GW <= length c ->
    length (convert_groups B n c p) = length c /\
    Forall valid_ctrl (convert_groups B n c p) /\
    forall j, nth j (convert_groups B n c p) POISON =
              if (p <=? j) && (j <? p + n * GW) then byte_convert (nth j c POISON) else nth j c POISON.
  Proof.
    induction n as [|n IH]; intros c p Hv Hlen.
    - cbn [convert_groups]. split; [reflexivity|]. split; [exact Hv|].
      intros j. destruct (Nat.leb_spec p j), (Nat.ltb_spec j (p + 0 * GW)); cbn [andb]; try reflexivity; lia.
    - cbn [convert_groups].
      set (g := firstn GW (skipn p c)).
      assert (Hg : length g = GW).
      { unfold g. rewrite firstn_length, skipn_length. cbn [Nat.mul] in Hlen. lia. }
      assert (Hok : group_ok GW g).
      { split; [exact Hg|]. unfold g. apply Forall_firstn_, Forall_skipn_. exact Hv. }
      rewrite (bs_convert B HB g Hok).
      set (g' := map byte_convert g).
      assert (Hg' : length g' = GW) by (unfold g'; rewrite map_length; exact Hg).
      set (c' := firstn p c ++ g' ++ skipn (p + GW) c).
      assert (Hc' : length c' = length c).
      { unfold c'. rewrite !app_length, firstn_length, skipn_length, Hg'. cbn [Nat.mul] in Hlen. lia. }
      assert (Hv' : Forall valid_ctrl c').
      { unfold c'. apply Forall_app. split; [apply Forall_firstn_; exact Hv|].
        apply Forall_app. split; [|apply Forall_skipn_; exact Hv].
        unfold g'. apply Forall_forall. intros x Hx. apply in_map_iff in Hx as (b & <- & _).
        apply byte_convert_valid. }
      assert (Hn' : forall j, nth j c' POISON =
                 if (p <=? j) && (j <? p + GW) then byte_convert (nth j c POISON) else nth j c POISON).
      { intros j. unfold c'.
        replace (skipn (p + GW) c) with (skipn (p + length g') c) by (rewrite Hg'; reflexivity).
        rewrite nth_splice by (rewrite Hg'; cbn [Nat.mul] in Hlen; lia).
        rewrite Hg'.
        destruct (Nat.leb_spec p j) as [Hpj|Hpj]; cbn [andb]; [|reflexivity].
        destruct (Nat.ltb_spec j (p + GW)) as [Hj|Hj]; [|reflexivity].
        unfold g'. rewrite (nth_indep _ POISON (byte_convert POISON)) by (rewrite map_length; lia).
        rewrite map_nth. f_equal. unfold g. rewrite nth_firstn_lt by lia. rewrite nth_skipn_add. f_equal. lia. }
      destruct (IH c' (p + GW) Hv' ltac:(rewrite Hc'; cbn [Nat.mul] in Hlen; lia)) as (IH1 & IH2 & IH3).
      split; [rewrite IH1; exact Hc'|]. split; [exact IH2|].
      intros j. rewrite IH3, Hn'. cbn [Nat.mul].
      destruct (Nat.leb_spec (p + GW) j), (Nat.ltb_spec j (p + GW + n * GW)),
               (Nat.leb_spec p j), (Nat.ltb_spec j (p + GW)), (Nat.ltb_spec j (p + (GW + n * GW)));
        cbn [andb]; try reflexivity; lia.
  Qed.

  Theorem prepare_rehash_in_place_spec t : Shape B T t -> Mirror B T t ->
    exists t0, prepare_rehash_in_place B T t = Ok t0 /\
      mask t0 = mask t /\ slots t0 = slots t /\ items t0 = items t /\ growth_left t0 = growth_left t /\
      Shape B T t0 /\ Mirror B T t0 /\
      (forall j, j < nb T t -> byte T t0 j = byte_convert (byte T t j)).
  Proof.
    intros HS HM.
    pose proof HS as (HP & Hl & Hsl & Hv).
    pose proof (Shape_mask_nz B T t HS) as Hnz.
    pose proof (Shape_nb_ge2 B T t HS) as H2.
    pose proof (GW_pos B HW) as HGp.
    unfold prepare_rehash_in_place, is_singleton.
    destruct (Nat.eqb_spec (mask t) 0) as [E0|_]; [contradiction|].
    fold (nb T t).
    set (ng := (nb T t + GW - 1) / GW).
    assert (Hng : (GW <= nb T t /\ ng * GW = nb T t) \/ (nb T t < GW /\ ng = 1)).
    { destruct (Nat.le_gt_cases GW (nb T t)) as [Hbig|Hsmall].
      - left. split; [exact Hbig|]. destruct HP as (k & Hk & Ek).
        destruct (pow2_multiple k GW HW ltac:(lia)) as (q & Eq).
        unfold ng. rewrite Ek, Eq.
        replace (q * GW + GW - 1) with (q * GW + (GW - 1)) by lia.
        rewrite Nat.div_add_l by lia. rewrite Nat.div_small by lia. lia.
      - right. split; [exact Hsmall|]. unfold ng.
        replace (nb T t + GW - 1) with (1 * GW + (nb T t - 1)) by lia.
        rewrite Nat.div_add_l by lia. rewrite Nat.div_small by lia. reflexivity. }
    assert (Hfit : 0 + ng * GW <= length (ctrl t)) by (destruct Hng as [[_ ->] | [_ ->]]; lia).
    destruct (Nat.leb_spec (ng * GW) (length (ctrl t))) as [_|Hbad]; [|lia].
    destruct (convert_groups_spec ng (ctrl t) 0 Hv Hfit) as (Hl1 & Hv1 & Hn1).
    set (c1 := convert_groups B ng (ctrl t) 0) in *.
    eexists. split; [reflexivity|].
    set (t0 := with_ctrl T t _).
    assert (Enb : nb T t0 = nb T t) by reflexivity.
    cbn [Nat.add] in Hn1.
    assert (Hc1 : forall j, j < ng * GW -> nth j c1 POISON = byte_convert (byte T t j)).
    { intros j Hj. rewrite Hn1. cbn [Nat.leb andb].
      destruct (Nat.ltb_spec j (ng * GW)); [reflexivity|lia]. }
    destruct Hng as [[Hbig Eng] | [Hsmall Eng]].
    - (* table at least as large as a group *)
      destruct (Nat.ltb_spec (nb T t) GW) as [Hlt|_]; [lia|].
      rewrite Eng in Hc1.
      assert (Hb0 : forall j, byte T t0 j =
                 if j <? nb T t then byte_convert (byte T t j) else nth (j - nb T t) (firstn GW c1) POISON).
      { intros j. unfold byte, t0. cbn [ctrl with_ctrl].
        assert (Hlf : length (firstn (nb T t) c1) = nb T t) by (rewrite firstn_length; lia).
        destruct (Nat.ltb_spec j (nb T t)) as [Hj|Hj].
        - rewrite app_nth1 by lia. rewrite nth_firstn_lt by exact Hj. apply Hc1. exact Hj.
        - rewrite app_nth2 by lia. rewrite Hlf. reflexivity. }
      repeat split; try reflexivity.
      + exact HP.
      + rewrite Enb. unfold t0. cbn [ctrl with_ctrl]. rewrite app_length, !firstn_length. lia.
      + exact Hsl.
      + unfold t0. cbn [ctrl with_ctrl]. apply Forall_app. split; apply Forall_firstn_; exact Hv1.
      + unfold Mirror. rewrite Enb. destruct (Nat.leb_spec GW (nb T t)); [|lia].
        intros i Hi. rewrite !Hb0.
        destruct (Nat.ltb_spec (nb T t + i) (nb T t)); [lia|].
        destruct (Nat.ltb_spec i (nb T t)); [|lia].
        replace (nb T t + i - nb T t) with i by lia.
        rewrite nth_firstn_lt by exact Hi. apply Hc1. lia.
      + intros j Hj. rewrite Hb0. destruct (Nat.ltb_spec j (nb T t)); [reflexivity|lia].
    - (* table smaller than a group *)
      destruct (Nat.ltb_spec (nb T t) GW) as [_|Hge]; [|lia].
      rewrite Eng, Nat.mul_1_l in Hc1.
      assert (Hsk : skipn (GW + nb T t) c1 = []).
      { apply skipn_all2. lia. }
      assert (Hb0 : forall j, byte T t0 j =
                 if j <? GW then byte_convert (byte T t j)
                 else if j <? GW + nb T t then byte_convert (byte T t (j - GW)) else POISON).
      { intros j. unfold byte at 1. unfold t0. cbn [ctrl with_ctrl]. fold (nb T t). rewrite Hsk, app_nil_r.
        assert (Hlf : length (firstn GW c1) = GW) by (rewrite firstn_length; lia).
        destruct (Nat.ltb_spec j GW) as [Hj|Hj].
        - rewrite app_nth1 by lia. rewrite nth_firstn_lt by exact Hj. apply Hc1. exact Hj.
        - rewrite app_nth2 by lia. rewrite Hlf.
          destruct (Nat.ltb_spec j (GW + nb T t)) as [Hj2|Hj2].
          + rewrite nth_firstn_lt by lia. apply Hc1. lia.
          + apply nth_overflow. rewrite firstn_length. lia. }
      pose proof HM as HM'. unfold Mirror in HM'.
      destruct (Nat.leb_spec GW (nb T t)) as [Hle|_]; [lia|]. destruct HM' as [HM1 HM2].
      repeat split; try reflexivity.
      + exact HP.
      + rewrite Enb. unfold t0. cbn [ctrl with_ctrl]. fold (nb T t). rewrite Hsk, app_nil_r.
        rewrite app_length, !firstn_length. lia.
      + exact Hsl.
      + unfold t0. cbn [ctrl with_ctrl]. apply Forall_app. split; [apply Forall_firstn_; exact Hv1|].
        apply Forall_app. split; [apply Forall_firstn_; exact Hv1|apply Forall_skipn_; exact Hv1].
      + unfold Mirror. rewrite Enb. destruct (Nat.leb_spec GW (nb T t)); [lia|]. split.
        * intros i Hi. rewrite Hb0. destruct (Nat.ltb_spec i GW); [|lia].
          rewrite (HM1 i Hi). reflexivity.
        * intros i Hi. rewrite !Hb0.
          destruct (Nat.ltb_spec (GW + i) GW); [lia|].
          destruct (Nat.ltb_spec (GW + i) (GW + nb T t)); [|lia].
          destruct (Nat.ltb_spec i GW); [|lia].
          replace (GW + i - GW) with i by lia. reflexivity.
      + intros j Hj. rewrite Hb0. destruct (Nat.ltb_spec j GW); [reflexivity|lia].
  Qed.
End Prepare.

Lemma count_p_pos p (l : list Z) i d : i < length l -> p (nth i l d) = true -> 0 < count_p p l.
Proof.
  intros Hi Hp. rewrite (upd_split l i d Hi). rewrite count_p_app, count_p_cons, Hp. lia.
Qed.

(* ---------------------------------------------------------------------------------------- *)
(* H2: the loop invariant                                                                     *)
(* ---------------------------------------------------------------------------------------- *)
Section Rehash.
  Variable B : backend.
  Variable T : Type.
  Hypothesis HW : WidthOK B.
  Hypothesis HB : BackendSpec B.
  Variable needs_drop : bool.
  Variable hasher : T -> option Z.
  Local Notation GW := (bk_width B).

  Definition nfull (t : table T) : nat := count_p is_full (real_ctrl T t).
  Definition ndel (t : table T) : nat := count_p is_deleted (real_ctrl T t).

  (* DELETED = "holds an element that has not been re-hashed yet" *)
  Definition RInv (t : table T) : Prop :=
    Shape B T t /\ Mirror B T t /\
    (forall j, j < nb T t ->
       (slot T t j <> None <-> (is_full (byte T t j) = true \/ byte T t j = DELETED))) /\
    items t = zn (nfull t + ndel t) /\
    (items t <= z_cap (mask t))%Z.

  Lemma RInv_mask_nz t : RInv t -> mask t <> 0.
  Proof. intros (HS & _). exact (Shape_mask_nz B T t HS). Qed.

  Lemma real_valid t : Shape B T t -> Forall valid_ctrl (real_ctrl T t).
  Proof. intros (_ & _ & _ & Hv). unfold real_ctrl. apply Forall_firstn_. exact Hv. Qed.

  Lemma RInv_empty t : RInv t -> exists i, i < nb T t /\ byte T t i = EMPTY.
  Proof.
    intros (HS & _ & _ & Hit & Hcap).
    pose proof (z_cap_lt (mask t) (Shape_MaskOK B T t HS)) as Hc.
    pose proof (real_ctrl_length B T t HS) as Hlen.
    pose proof (count_cover _ (real_valid t HS)) as Hcov. rewrite Hlen in Hcov.
    unfold nfull, ndel, zn, nb, buckets in *.
    destruct (count_pos_exists is_empty (real_ctrl T t) ltac:(lia)) as (i & Hi & He).
    rewrite Hlen in Hi. exists i. split; [exact Hi|].
    rewrite (real_ctrl_nth B T t i 0%Z Hi HS) in He. apply is_empty_eq. exact He.
  Qed.

  Lemma ndel_pos t i : Shape B T t -> i < nb T t -> byte T t i = DELETED -> 0 < ndel t.
  Proof.
    intros HS Hi Hb. unfold ndel. apply (count_p_pos is_deleted _ i POISON).
    - rewrite (real_ctrl_length B T t HS). exact Hi.
    - rewrite (real_ctrl_nth B T t i POISON Hi HS), Hb. reflexivity.
  Qed.

  Lemma ndel_le t : Shape B T t -> ndel t <= nb T t.
  Proof. intros HS. apply (count_real_le B T is_deleted t HS). Qed.

  Lemma ndel_zero t : Shape B T t -> (forall j, j < nb T t -> byte T t j <> DELETED) -> ndel t = 0.
  Proof.
    intros HS H. destruct (Nat.eq_dec (ndel t) 0) as [E|E]; [exact E|exfalso].
    destruct (count_pos_exists is_deleted (real_ctrl T t) ltac:(unfold ndel in E; lia)) as (i & Hi & Hd).
    rewrite (real_ctrl_length B T t HS) in Hi.
    rewrite (real_ctrl_nth B T t i 0%Z Hi HS) in Hd. apply is_deleted_eq in Hd.
    exact (H i Hi Hd).
  Qed.

  Theorem prepare_RInv t : SafeWF B T t -> mask t <> 0 ->
    exists t0, prepare_rehash_in_place B T t = Ok t0 /\
      mask t0 = mask t /\ slots t0 = slots t /\ items t0 = items t /\ RInv t0 /\
      (forall j, j < nb T t -> byte T t0 j = byte_convert (byte T t j)).
  Proof.
    intros H Hm. destruct (SafeWF_alloc B T t H Hm) as (HS & HM & (Hit & Hsum & Hgl & Hsl)).
    destruct (prepare_rehash_in_place_spec B T HW HB t HS HM)
      as (t0 & E & Em & Esl & Eit & Egl & HS0 & HM0 & Hb0).
    exists t0. split; [exact E|]. split; [exact Em|]. split; [exact Esl|]. split; [exact Eit|].
    split; [|exact Hb0].
    assert (Enb : nb T t0 = nb T t) by (unfold nb, buckets; rewrite Em; reflexivity).
    assert (Er : real_ctrl T t0 = map byte_convert (real_ctrl T t)).
    { apply (nth_ext _ _ POISON (byte_convert POISON)).
      - rewrite map_length, (real_ctrl_length B T t0 HS0), (real_ctrl_length B T t HS). exact Enb.
      - intros j Hj. rewrite (real_ctrl_length B T t0 HS0), Enb in Hj.
        rewrite (real_ctrl_nth B T t0 j POISON) by (rewrite ?Enb; assumption).
        rewrite map_nth. rewrite (real_ctrl_nth B T t j POISON Hj HS). apply Hb0. exact Hj. }
    split; [exact HS0|]. split; [exact HM0|]. split; [|split].
    - intros j Hj. rewrite Enb in Hj. rewrite (Hb0 j Hj). unfold slot. rewrite Esl. fold (slot T t j).
      rewrite (Hsl j Hj). unfold byte_convert. destruct (is_full (byte T t j)).
      + split; [intros _; right; reflexivity|reflexivity].
      + split; [discriminate|]. intros [X | X]; discriminate X.
    - unfold nfull, ndel. rewrite Er, !count_p_map.
      rewrite (count_p_none (fun b => is_full (byte_convert b))) by apply byte_convert_not_full.
      rewrite (count_p_ext (fun b => is_deleted (byte_convert b)) is_full) by apply byte_convert_deleted.
      rewrite Eit. exact Hit.
    - rewrite Eit, Em. unfold zn in *. lia.
  Qed.

  (* ---------------------------------------------------------------------------------------- *)
  (* FS: find_insert_slot on a table that holds a real EMPTY byte (Count not needed)            *)
  (* ---------------------------------------------------------------------------------------- *)
  Section FS.
    Variable t : table T.
    Hypothesis HS : Shape B T t.
    Hypothesis HM : Mirror B T t.
    Hypothesis HE : exists i, i < nb T t /\ byte T t i = EMPTY.
    Variable hash : Z.

    Local Notation p0 := (n_probe_start (mask t) hash).
    Local Notation PS j := (pseq B (mask t) p0 j).

    Lemma reach_empty_E : exists j, j < probe_fuel B T t /\ HasEmpty B T t hash j.
    Proof.
      destruct HE as (i & Hi & Ei).
      destruct (Nat.le_gt_cases GW (nb T t)) as [Hbig|Hsmall].
      - destruct (coverage_offset B T HW t hash i HS Hbig Hi) as (j & m & Hj & Hm & E).
        exists j. split; [unfold probe_fuel; fold (nb T t); lia|].
        destruct (load_view B T t _ HS HM (PS_lt B T t HS hash j)) as (g & Hg & Hlen & Hok & Hv & _).
        exists g. split; [exact Hg|]. apply existsb_exists. exists (nth m g 0%Z).
        split; [apply nth_In; lia|]. rewrite Hv by assumption.
        unfold ppos in E. rewrite E, Ei. reflexivity.
      - exists 0. split; [unfold probe_fuel; lia|].
        pose proof (PS_lt B T t HS hash 0) as Hp.
        destruct (load_view B T t _ HS HM Hp) as (g & Hg & Hlen & Hok & _ & Hv).
        exists g. split; [exact Hg|]. apply existsb_exists.
        set (m := nb T t - fst (PS 0)). exists (nth m g 0%Z).
        split; [apply nth_In; lia|]. rewrite (Hv Hsmall m ltac:(lia)).
        destruct (Nat.ltb_spec (fst (PS 0) + m) (nb T t)); [lia|].
        destruct (Nat.ltb_spec (fst (PS 0) + m) GW); [reflexivity|lia].
    Qed.

    Lemma fix_insert_slot_ok_E s : SlotCand B T t s ->
      exists s', fix_insert_slot B T t s = Ok s' /\ s' < nb T t /\ is_special (byte T t s') = true.
    Proof.
      intros (Hs & Hfull). unfold fix_insert_slot, is_bucket_full.
      rewrite (ctrl_at_ok B T t HS s Hs). cbn [bind].
      destruct (is_full (byte T t s)) eqn:F.
      - specialize (Hfull eq_refl).
        destruct (load_aligned_0_view B T HW t HS HM) as (g0 & Hg0 & Hok & Hreal & _).
        rewrite Hg0. cbn [bind]. rewrite (bs_lowest_eod B HB g0 Hok).
        destruct HE as (i0 & Hi0 & Ei0).
        assert (Hsp : is_special (nth i0 g0 0%Z) = true).
        { rewrite Hreal by lia. rewrite Ei0. reflexivity. }
        destruct (first_index_le is_special g0 i0 ltac:(destruct Hok as [-> _]; lia) Hsp) as (i & Ei & Hle).
        rewrite Ei. exists i. split; [reflexivity|]. split; [lia|].
        destruct (first_index_Some _ _ _ Ei) as (_ & Hspi). rewrite Hreal in Hspi by lia. exact Hspi.
      - exists s. split; [reflexivity|]. split; [exact Hs|]. rewrite is_special_negb_full, F. reflexivity.
    Qed.

    Lemma find_insert_slot_loop_ok_E : forall n j,
      (exists j', j <= j' < j + n /\ HasEmpty B T t hash j') ->
      exists i, find_insert_slot_loop B T n t (fst (PS j)) (snd (PS j)) = Ok i /\
                i < nb T t /\ is_special (byte T t i) = true.
    Proof.
      induction n as [|n IH]; intros j (j' & Hj' & He); [lia|].
      cbn [find_insert_slot_loop].
      destruct (load_PS B T t HS HM hash j) as (g & Hg & Hok). rewrite Hg. cbn [bind].
      destruct (find_insert_slot_in_group B T t g (fst (PS j))) as [s|] eqn:Es.
      - apply fix_insert_slot_ok_E.
        apply (in_group_cand B T HW HB t HS HM _ g s (PS_lt B T t HS hash j) Hg Es).
      - rewrite <- pseq_S. destruct (PS (S j)) as [p' s'] eqn:EPS.
        specialize (IH (S j)). rewrite EPS in IH. cbn [fst snd] in IH. apply IH.
        exists j'. split; [|exact He].
        destruct (Nat.eq_dec j' j) as [->|]; [|lia].
        destruct (in_group_some B T HB t HS _ g (PS_lt B T t HS hash j) Hg (HasEmpty_load B T t hash j g He Hg))
          as (s & Es').
        rewrite Es' in Es. discriminate Es.
    Qed.

    (* TERMINATION of find_insert_slot without Count: a real bucket holding EMPTY or DELETED *)
    Theorem find_insert_slot_terminates_E :
      exists i, find_insert_slot B T t hash = Ok i /\ i < nb T t /\ is_special (byte T t i) = true.
    Proof.
      unfold find_insert_slot. destruct reach_empty_E as (j & Hj & He).
      apply (find_insert_slot_loop_ok_E (probe_fuel B T t) 0). exists j. split; [lia|exact He].
    Qed.
  End FS.

  (* ---------------------------------------------------------------------------------------- *)
  (* list surgery: exchanging two positions is a permutation                                    *)
  (* ---------------------------------------------------------------------------------------- *)
  Lemma nth_upd2 {A} (l : list A) i j x y k d : i < length l -> j < length l ->
    nth k (upd (upd l i x) j y) d = if k =? j then y else if k =? i then x else nth k l d.
  Proof.
    intros Hi Hj. rewrite nth_upd by (rewrite upd_length; lia). rewrite nth_upd by lia. reflexivity.
  Qed.

  Lemma upd2_length {A} (l : list A) i j x y : i < length l -> j < length l ->
    length (upd (upd l i x) j y) = length l.
  Proof. intros Hi Hj. rewrite upd_length by (rewrite upd_length; lia). apply upd_length. lia. Qed.

  Lemma upd_comm {A} (l : list A) i j x y : i <> j -> i < length l -> j < length l ->
    upd (upd l i x) j y = upd (upd l j y) i x.
  Proof.
    intros Hne Hi Hj. apply (nth_ext _ _ x x).
    - rewrite !upd2_length by lia. reflexivity.
    - intros k _. rewrite !nth_upd2 by lia.
      destruct (Nat.eqb_spec k j), (Nat.eqb_spec k i); try reflexivity; lia.
  Qed.

  Lemma upd_app_len {A} (l1 l2 : list A) x y : upd (l1 ++ x :: l2) (length l1) y = l1 ++ y :: l2.
  Proof.
    unfold upd. f_equal.
    - replace (length l1) with (length l1 + 0) by lia. rewrite firstn_app_2. cbn. apply app_nil_r.
    - f_equal. rewrite skipn_app. rewrite (skipn_all2 l1) by lia.
      replace (S (length l1) - length l1) with 1 by lia. reflexivity.
  Qed.

  Lemma swap_decomp {A} (l1 l2 l3 : list A) a b :
    upd (upd (l1 ++ a :: l2 ++ b :: l3) (length l1) b) (length l1 + S (length l2)) a =
    l1 ++ b :: l2 ++ a :: l3.
  Proof.
    rewrite upd_app_len.
    replace (l1 ++ b :: l2 ++ b :: l3) with ((l1 ++ b :: l2) ++ b :: l3)
      by (rewrite <- app_assoc; reflexivity).
    replace (length l1 + S (length l2)) with (length (l1 ++ b :: l2))
      by (rewrite app_length; cbn [length]; lia).
    rewrite upd_app_len. rewrite <- app_assoc. reflexivity.
  Qed.

  Lemma swap_perm_lt {A} (l : list A) i j d : i < j -> j < length l ->
    Permutation (upd (upd l i (nth j l d)) j (nth i l d)) l.
  Proof.
    intros Hij Hj.
    set (a := nth i l d). set (b := nth j l d).
    assert (Hd : exists l1 l2 l3, l = l1 ++ a :: l2 ++ b :: l3 /\ length l1 = i /                                  length l1 + S (length l2) = j).
    { set (r := skipn (S i) l).
      assert (Hr : j - S i < length r) by (unfold r; rewrite skipn_length; lia).
      assert (Eb : nth (j - S i) r d = b).
      { unfold r, b. rewrite nth_skipn_add. f_equal. lia. }
      exists (firstn i l), (firstn (j - S i) r), (skipn (S (j - S i)) r).
      split; [|split].
      - rewrite <- Eb. rewrite <- (upd_split r (j - S i) d Hr). apply upd_split. lia.
      - rewrite firstn_length. lia.
      - rewrite !firstn_length. lia. }
    destruct Hd as (l1 & l2 & l3 & El & H1 & H2). clearbody a b. subst l i j.
    rewrite swap_decomp. apply Permutation_app_head.
    apply perm_trans with (b :: a :: l2 ++ l3).
    - apply perm_skip. symmetry. apply Permutation_middle.
    - apply perm_trans with (a :: b :: l2 ++ l3); [apply perm_swap|].
      apply perm_skip. apply Permutation_middle.
  Qed.

  Lemma swap_perm {A} (l : list A) i j d : i <> j -> i < length l -> j < length l ->
    Permutation (upd (upd l i (nth j l d)) j (nth i l d)) l.
  Proof.
    intros Hne Hi Hj. destruct (Nat.lt_ge_cases i j) as [Hlt|Hge].
    - apply swap_perm_lt; assumption.
    - rewrite upd_comm by lia. apply swap_perm_lt; lia.
  Qed.

  Lemma occ_swap (l : list (option T)) i j : i <> j -> i < length l -> j < length l ->
    Permutation (occ (upd (upd l i (nth j l None)) j (nth i l None))) (occ l).
  Proof.
    intros Hne Hi Hj. unfold occ. apply Permutation_flat_map. apply swap_perm; assumption.
  Qed.

  (* ---------------------------------------------------------------------------------------- *)
  (* steps that keep RInv                                                                       *)
  (* ---------------------------------------------------------------------------------------- *)
  Definition b2n (b : bool) : nat := if b then 1 else 0.

  Lemma set_ctrl_counts t i b : Shape B T t -> Mirror B T t -> i < nb T t -> valid_ctrl b ->
    exists t', set_ctrl B T t i b = Ok t' /      mask t' = mask t /\ slots t' = slots t /\ items t' = items t /      Shape B T t' /\ Mirror B T t' /      (forall j, j < nb T t -> byte T t' j = if j =? i then b else byte T t j) /      nfull t' + b2n (is_full (byte T t i)) = nfull t + b2n (is_full b) /      ndel t' + b2n (is_deleted (byte T t i)) = ndel t + b2n (is_deleted b).
  Proof.
    intros HS HM Hi Hb.
    destruct (set_ctrl_spec B T HW t i b HS HM Hi Hb) as (t' & E & Em & Esl & Eit & _ & HS' & HM' & Hby & _).
    exists t'. repeat (split; [assumption|]). split.
    - exact (count_p_set_ctrl B T HW is_full t i b t' HS HM Hi Hb E).
    - exact (count_p_set_ctrl B T HW is_deleted t i b t' HS HM Hi Hb E).
  Qed.

  Lemma RInv_ext t t2 t' : RInv t ->
    Shape B T t2 -> Mirror B T t2 -> mask t2 = mask t -> items t2 = items t ->
    nfull t2 + ndel t2 = nfull t + ndel t ->
    mask t' = mask t2 -> ctrl t' = ctrl t2 -> items t' = items t2 -> length (slots t') = nb T t ->
    (forall j, j < nb T t ->
       (slot T t' j <> None <-> (is_full (byte T t2 j) = true \/ byte T t2 j = DELETED))) ->
    RInv t'.
  Proof.
    intros (HS & HM & Hsl & Hit & Hcap) HS2 HM2 Em2 Eit2 Ecnt Em' Ec' Eit' Hlen Hsl'.
    assert (Enb2 : nb T t2 = nb T t) by (unfold nb, buckets; rewrite Em2; reflexivity).
    assert (Enb' : nb T t' = nb T t) by (unfold nb, buckets; rewrite Em', Em2; reflexivity).
    assert (Eby : forall j, byte T t' j = byte T t2 j) by (intros j; unfold byte; rewrite Ec'; reflexivity).
    split; [|split; [|split; [|split]]].
    - apply (Shape_ext B T t2 t' Em' Ec'); [|exact HS2].
      destruct HS2 as (_ & _ & Hl2 & _). rewrite Hl2, Hlen. symmetry. exact Enb2.
    - apply (Mirror_ext B T t2 t' Em' Ec' HM2).
    - intros j Hj. rewrite Enb' in Hj. rewrite Eby. apply Hsl'. exact Hj.
    - unfold nfull, ndel in *. rewrite (real_ctrl_ext T t2 t' Em' Ec'). rewrite Eit', Eit2, Ecnt. exact Hit.
    - rewrite Eit', Eit2, Em', Em2. exact Hcap.
  Qed.
End Rehash.
