(* AssocFacts.v -- facts about the reference association list of Spec/AssocSpec.v:
   lookup / delete / put / sublist_of / same_set on lists with unique keys, and their
   compatibility with permutations.  Pure list reasoning, no table involved.  No axioms. *)
From Coq Require Import ZArith List Bool Lia Permutation.
From HB Require Import RsPrelude Gen Group Raw Map AssocSpec.
Import ListNotations.
Open Scope Z_scope.

Definition Keys (s : spec) : list Z := map k_id s.

Lemma lookup_Some s k e : lookup s k = Some e -> In e s /\ k_id e = k.
Proof.
  induction s as [|x r IH]; cbn [lookup]; [discriminate|].
  destruct (Z.eqb_spec (k_id x) k) as [E|N].
  - intros H. injection H as <-. split; [left; reflexivity|exact E].
  - intros H. destruct (IH H) as (Hin & Hk). split; [right; exact Hin|exact Hk].
Qed.

Lemma lookup_None s k : lookup s k = None <-> (forall e, In e s -> k_id e <> k).
Proof.
  induction s as [|x r IH]; cbn [lookup].
  - split; [intros _ e []|reflexivity].
  - destruct (Z.eqb_spec (k_id x) k) as [E|N].
    + split; [discriminate|]. intros H. exfalso. exact (H x (or_introl eq_refl) E).
    + rewrite IH. split.
      * intros H e [<-|Hin]; [exact N|exact (H e Hin)].
      * intros H e Hin. exact (H e (or_intror Hin)).
Qed.

Lemma lookup_None_keys s k : lookup s k = None <-> ~ In k (map k_id s).
Proof.
  rewrite lookup_None. split.
  - intros H Hin. apply in_map_iff in Hin. destruct Hin as (e & Ek & Hin). exact (H e Hin Ek).
  - intros H e Hin Ek. apply H. apply in_map_iff. exists e. split; assumption.
Qed.

Lemma In_lookup s e : NoDup (map k_id s) -> In e s -> lookup s (k_id e) = Some e.
Proof.
  induction s as [|x r IH]; [intros _ []|].
  cbn [map lookup]. intros Hnd Hin. inversion Hnd as [|? ? Hx Hr]; subst.
  destruct Hin as [->|Hin].
  - rewrite Z.eqb_refl. reflexivity.
  - destruct (Z.eqb_spec (k_id x) (k_id e)) as [E|N].
    + exfalso. apply Hx. rewrite E. apply in_map. exact Hin.
    + exact (IH Hr Hin).
Qed.

Lemma lookup_some_iff s k e : NoDup (map k_id s) -> (lookup s k = Some e <-> In e s /\ k_id e = k).
Proof.
  intros Hnd. split; [apply lookup_Some|]. intros (Hin & <-). exact (In_lookup s e Hnd Hin).
Qed.

Lemma delete_In s k e : In e (delete s k) <-> In e s /\ k_id e <> k.
Proof.
  induction s as [|x r IH]; cbn [delete].
  - split; [intros []|intros ([] & _)].
  - destruct (Z.eqb_spec (k_id x) k) as [E|N].
    + rewrite IH. split.
      * intros (Hin & Hk). split; [right; exact Hin|exact Hk].
      * intros ([<-|Hin] & Hk); [contradiction|split; assumption].
    + cbn [In]. rewrite IH. split.
      * intros [<-|(Hin & Hk)]; [split; [left; reflexivity|exact N]|split; [right; exact Hin|exact Hk]].
      * intros ([->|Hin] & Hk); [left; reflexivity|right; split; assumption].
Qed.

Lemma delete_absent s k : lookup s k = None -> delete s k = s.
Proof.
  induction s as [|x r IH]; cbn [lookup delete]; [reflexivity|].
  destruct (k_id x =? k); [discriminate|]. intros H. rewrite (IH H). reflexivity.
Qed.

Lemma lookup_delete_same s k : lookup (delete s k) k = None.
Proof. apply lookup_None. intros e Hin. apply delete_In in Hin. exact (proj2 Hin). Qed.

Lemma delete_keys_incl s k x : In x (map k_id (delete s k)) -> In x (map k_id s) /\ x <> k.
Proof.
  intros Hin. apply in_map_iff in Hin. destruct Hin as (e & <- & Hin).
  apply delete_In in Hin. destruct Hin as (Hin & Hk). split; [apply in_map; exact Hin|exact Hk].
Qed.

Lemma delete_NoDup s k : NoDup (map k_id s) -> NoDup (map k_id (delete s k)).
Proof.
  induction s as [|x r IH]; cbn [delete map]; [intros H; exact H|].
  intros Hnd. inversion Hnd as [|? ? Hx Hr]; subst.
  destruct (k_id x =? k); [exact (IH Hr)|].
  cbn [map]. constructor; [|exact (IH Hr)].
  intros Hin. apply Hx. exact (proj1 (delete_keys_incl r k _ Hin)).
Qed.

Lemma delete_present s k e : NoDup (map k_id s) -> lookup s k = Some e -> Permutation s (e :: delete s k).
Proof.
  induction s as [|x r IH]; cbn [lookup delete map]; [discriminate|].
  intros Hnd. inversion Hnd as [|? ? Hx Hr]; subst.
  destruct (Z.eqb_spec (k_id x) k) as [E|N].
  - intros H. injection H as <-. apply perm_skip.
    rewrite delete_absent; [apply Permutation_refl|].
    apply lookup_None_keys. rewrite <- E. exact Hx.
  - intros H. etransitivity; [apply perm_skip; exact (IH Hr H)|]. apply perm_swap.
Qed.

Lemma delete_perm s1 s2 k : Permutation s1 s2 -> Permutation (delete s1 k) (delete s2 k).
Proof.
  induction 1 as [|x l l' _ IH|x y l|l l' l'' _ IH1 _ IH2]; cbn [delete].
  - apply Permutation_refl.
  - destruct (k_id x =? k); [exact IH|apply perm_skip; exact IH].
  - destruct (k_id x =? k), (k_id y =? k); try apply Permutation_refl. apply perm_swap.
  - etransitivity; eassumption.
Qed.

Lemma keys_perm s1 s2 : Permutation s1 s2 -> Permutation (map k_id s1) (map k_id s2).
Proof. apply Permutation_map. Qed.

Lemma NoDup_keys_perm s1 s2 : Permutation s1 s2 -> NoDup (map k_id s1) -> NoDup (map k_id s2).
Proof. intros P. apply Permutation_NoDup. apply keys_perm. exact P. Qed.

Lemma lookup_perm s1 s2 k : NoDup (map k_id s1) -> Permutation s1 s2 -> lookup s1 k = lookup s2 k.
Proof.
  intros Hnd P. pose proof (NoDup_keys_perm s1 s2 P Hnd) as Hnd2.
  destruct (lookup s1 k) as [e|] eqn:E1.
  - symmetry. apply (lookup_some_iff s2 k e Hnd2). destruct (lookup_Some s1 k e E1) as (Hin & Hk).
    split; [exact (Permutation_in _ P Hin)|exact Hk].
  - symmetry. apply lookup_None. intros e Hin. apply (proj1 (lookup_None s1 k) E1).
    exact (Permutation_in _ (Permutation_sym P) Hin).
Qed.

Lemma put_NoDup s e : NoDup (map k_id s) -> NoDup (map k_id (put s e)).
Proof.
  intros Hnd. unfold put. cbn [map]. constructor; [|apply delete_NoDup; exact Hnd].
  intros Hin. exact (proj2 (delete_keys_incl s _ _ Hin) eq_refl).
Qed.

Lemma put_absent s e : lookup s (k_id e) = None -> put s e = e :: s.
Proof. intros H. unfold put. rewrite (delete_absent s _ H). reflexivity. Qed.

(* replacing the element stored under a key *)
Lemma put_present s e e' : NoDup (map k_id s) -> lookup s (k_id e') = Some e ->
  Permutation (e :: put s e') (e' :: s).
Proof.
  intros Hnd H. unfold put.
  etransitivity; [apply perm_swap|]. apply perm_skip. symmetry. exact (delete_present s _ e Hnd H).
Qed.

Lemma kv_eqb_refl e : kv_eqb e e = true.
Proof. unfold kv_eqb. rewrite !Z.eqb_refl. reflexivity. Qed.

Lemma kv_eqb_eq a b : kv_eqb a b = true -> a = b.
Proof.
  unfold kv_eqb. intros H. apply andb_prop in H. destruct H as [H H3]. apply andb_prop in H. destruct H as [H1 H2].
  apply Z.eqb_eq in H1, H2, H3. destruct a, b. cbn in *. congruence.
Qed.

(* a list whose elements, together with `r`, make up s: it is accepted, what is left is r *)
Lemma sublist_of_split l : forall r s, NoDup (map k_id s) -> Permutation (l ++ r) s ->
  exists s', sublist_of l s = Some s' /\ Permutation r s' /\ NoDup (map k_id s').
Proof.
  induction l as [|e l IH]; intros r s Hnd P; cbn [sublist_of app] in *.
  - exists s. split; [reflexivity|]. split; [exact P|exact Hnd].
  - assert (Hin : In e s) by (apply (Permutation_in _ P); left; reflexivity).
    rewrite (In_lookup s e Hnd Hin), kv_eqb_refl.
    apply IH; [apply delete_NoDup; exact Hnd|].
    apply (Permutation_cons_inv (a := e)).
    etransitivity; [exact P|]. exact (delete_present s _ e Hnd (In_lookup s e Hnd Hin)).
Qed.

Lemma sublist_of_perm l s : NoDup (map k_id s) -> Permutation l s -> sublist_of l s = Some [].
Proof.
  intros Hnd P. destruct (sublist_of_split l [] s Hnd ltac:(rewrite app_nil_r; exact P)) as (s' & E & P' & _).
  apply Permutation_nil in P'. subst s'. exact E.
Qed.

Lemma same_set_perm l s : NoDup (map k_id s) -> Permutation l s -> same_set l s = true.
Proof. intros Hnd P. unfold same_set. rewrite (sublist_of_perm l s Hnd P). reflexivity. Qed.

(* lookup after put / delete *)
Lemma lookup_put_same s e : lookup (put s e) (k_id e) = Some e.
Proof. unfold put. cbn [lookup]. rewrite Z.eqb_refl. reflexivity. Qed.

Lemma lookup_delete_other s k k' : k' <> k -> lookup (delete s k) k' = lookup s k'.
Proof.
  intros Hne. induction s as [|x r IH]; cbn [delete lookup]; [reflexivity|].
  destruct (Z.eqb_spec (k_id x) k) as [E|N].
  - destruct (Z.eqb_spec (k_id x) k') as [E'|N']; [congruence|exact IH].
  - cbn [lookup]. destruct (k_id x =? k'); [reflexivity|exact IH].
Qed.

Lemma lookup_put_other s e k' : k' <> k_id e -> lookup (put s e) k' = lookup s k'.
Proof.
  intros Hne. unfold put. cbn [lookup]. destruct (Z.eqb_spec (k_id e) k') as [E|_]; [congruence|].
  apply lookup_delete_other. exact Hne.
Qed.

Lemma insert_like_NoDup s k st v : NoDup (map k_id s) -> NoDup (map k_id (insert_like s k st v)).
Proof. intros Hnd. unfold insert_like. destruct (lookup s k); apply put_NoDup; exact Hnd. Qed.

Print Assumptions lookup_perm.
Print Assumptions delete_present.
Print Assumptions sublist_of_split.
Print Assumptions same_set_perm.
