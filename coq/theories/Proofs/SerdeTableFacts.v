(* SerdeTableFacts.v -- the Deserialize visitors (Model/Serde.v: deser_map = with_capacity(cautious
   (hint)), insert every pair in input order, on an input error drop the partial map) on the TABLE
   model: success yields a well-formed table representing exactly `build items` (last value per
   key, first key object); an error at ANY position leaves nothing behind: the partial map is a
   valid table holding exactly the pairs built so far, each key once, and dropping it drops each
   of them exactly once and frees its block exactly once.  No axioms. *)
From Coq Require Import ZArith List Bool Lia Permutation.
From HB Require Import RsPrelude Sse2 Gen Group Raw Map Check AssocSpec ArithFacts WFDefs SafeAllocClear RawOpsSafe
  MapDefs AssocFacts MapRefineBase MapStepRefine Serde SerdeFacts.
Import ListNotations.
Open Scope Z_scope.

Section SerdeTable.
  Variable B : backend.
  Hypothesis HW : WidthOK B.
  Hypothesis HB : BackendSpec B.
  Variable tsize talign : Z.
  Hypothesis HL : LayoutOK tsize talign.
  Variable needs_drop : bool.
  Variable hash_of : Z -> option Z.
  Hypothesis Htot : TotalHash hash_of.

  Local Notation INV := (Inv B tsize talign hash_of).
  Local Notation STEP := (map_step B tsize talign needs_drop true hash_of false).
  Local Notation refines := (map_step_refines_inv B HW HB tsize talign HL needs_drop hash_of Htot false).

  Lemma expect_out' o w s1 s2 : expect o w s1 = Some s2 -> out_eqb o w = true /\ s2 = s1.
  Proof. unfold expect. destruct (out_eqb o w); [|discriminate]. intros H. injection H as <-. split; reflexivity. Qed.

  (* insert every pair in order: never unwinds, and the table follows the reference fold *)
  Lemma insert_all_refines : forall items t s evs0 t' evs ok, INV t s ->
    insert_all B tsize talign needs_drop true hash_of t items evs0 = Ok (t', evs, ok) ->
    ok = true /\ INV t' (fold_left ins items s).
  Proof.
    induction items as [|e r IH]; intros t s evs0 t' evs ok HI E; cbn [insert_all] in E.
    - injection E as <- <- <-. split; [reflexivity|exact HI].
    - destruct (STEP t (OpInsert (k_id e) (k_stamp e) (v_val e))) as [[[t1 o] evs1]|] eqn:Es; cbn [bind] in E; [|discriminate].
      destruct (refines t s (OpInsert (k_id e) (k_stamp e) (v_val e)) t1 o evs1 I I HI Es) as (Hu & s1 & Ea & HI1).
      cbn [spec_accepts] in Ea. apply expect_out' in Ea. destruct Ea as (_ & ->).
      destruct o; cbn [is_unwind] in Hu; try discriminate Hu; cbn [fold_left]; exact (IH t1 _ _ t' evs ok HI1 E).
  Qed.

  Definition hint_ok (hint : option Z) : Prop := forall h, hint = Some h -> 0 <= h.

  (* dropping a valid map: every stored element once (when the type has drop glue), then the block once *)
  Lemma drop_map_events t s t' o evs : INV t s -> STEP t OpDropMap = Ok (t', o, evs) ->
    t' = new_table B kv /\ o = OutUnit /\
    (mask t = 0%nat -> evs = []) /\
    (mask t <> 0%nat -> exists len al off,
       layout_for B tsize talign (nb kv t) = Some (len, al, off) /\ ValidLayout len al /\
       evs = (if needs_drop then map EvDrop (occupants kv t) else []) ++ [EvFree len al]).
  Proof.
    intros (HWF & HO & _) E. cbn [map_step] in E. destruct HWF as (HS & _).
    destruct (drop_inner_table_spec B kv HW HB tsize talign (proj1 HL) (proj2 HL) needs_drop drop_ok t HS HO)
      as (evs0 & ok & Ed & H0 & H1).
    rewrite Ed in E. cbn [bind] in E. injection E as <- <- <-.
    split; [reflexivity|]. split; [reflexivity|]. split.
    - intros Hm. exact (proj1 (H0 Hm)).
    - intros Hm. destruct (H1 Hm) as (len & al & off & dr & El & HV & Hp & Hnd & Hno & Hfail & Eevs).
      exists len, al, off. split; [exact El|]. split; [exact HV|].
      destruct ok.
      + rewrite Eevs. destruct needs_drop.
        * rewrite (Hnd eq_refl eq_refl). reflexivity.
        * destruct (Hno (or_introl eq_refl)) as (-> & _). reflexivity.
      + exfalso. destruct (Hfail eq_refl) as (l & e & _ & Hd). discriminate Hd.
  Qed.

  (* ---------------------------------------------------------------------------------------- *)
  Theorem deser_map_refines hint items err_at r evs :
    hint_ok hint ->
    deser_map B tsize talign needs_drop true hash_of hint items err_at = Ok (r, evs) ->
    let fails := match err_at with Some p => Nat.leb p (length items) | None => false end in
    let consumed := match err_at with Some p => firstn p items | None => items end in
    (fails = false ->
       exists t1, r = Some t1 /\ INV t1 (build consumed) /\
                  forall k, lookup (build consumed) k =
                            match last_val consumed k with
                            | Some v => Some (mkKV k (match first_stamp consumed k with Some s => s | None => 0 end) v)
                            | None => None
                            end) /\
    (fails = true ->
       r = None /\
       exists t1 evs2, INV t1 (build consumed) /\        (* the partial map was a valid map of the pairs read so far *)
         STEP t1 OpDropMap = Ok (new_table B kv, OutUnit, evs2) /\
         (mask t1 = 0%nat -> evs2 = []) /\
         (mask t1 <> 0%nat -> exists len al off,
            layout_for B tsize talign (nb kv t1) = Some (len, al, off) /\ ValidLayout len al /\
            evs2 = (if needs_drop then map EvDrop (occupants kv t1) else []) ++ [EvFree len al])).
  Proof.
    intros Hh E fails consumed. unfold deser_map in E.
    pose proof (cautious_bound hint Hh) as Hc.
    destruct (STEP (new_table B kv) (OpWithCapacity (serde_cautious hint))) as [[[t0 o0] evs0]|] eqn:E0; cbn [bind] in E; [|discriminate].
    assert (Ha0 : op_args_ok (OpWithCapacity (serde_cautious hint))) by (cbn [op_args_ok]; lia).
    destruct (refines (new_table B kv) [] (OpWithCapacity (serde_cautious hint)) t0 o0 evs0 Ha0 I
                (inv_new_table B tsize talign hash_of) E0) as (_ & s0 & Ea0 & HI0).
    cbn [spec_accepts] in Ea0. apply expect_out' in Ea0. destruct Ea0 as (_ & ->).
    fold consumed in E. fold fails in E.
    destruct (insert_all B tsize talign needs_drop true hash_of t0 consumed evs0) as [[[t1 evs1] ok]|] eqn:Ei; cbn [bind] in E; [|discriminate].
    destruct (insert_all_refines consumed t0 [] evs0 t1 evs1 ok HI0 Ei) as (-> & HI1).
    cbn [negb] in E. fold (build consumed) in HI1.
    destruct fails eqn:Ef.
    - destruct (STEP t1 OpDropMap) as [[[t2 o2] evs2]|] eqn:Ed; cbn [bind] in E; [|discriminate].
      injection E as <- <-. split; [discriminate|]. intros _. split; [reflexivity|].
      destruct (drop_map_events t1 _ t2 o2 evs2 HI1 Ed) as (-> & -> & Hm0 & Hm1).
      exists t1, evs2. split; [exact HI1|]. split; [exact Ed|]. split; [exact Hm0|exact Hm1].
    - injection E as <- <-. split; [|discriminate]. intros _.
      exists t1. split; [reflexivity|]. split; [exact HI1|]. intros k. apply build_last_wins.
  Qed.
End SerdeTable.

Print Assumptions deser_map_refines.
