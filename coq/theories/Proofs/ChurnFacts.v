(* ChurnFacts.v -- C13 "insert/remove churn is reclaimed: bounded memory", and the raw-level
   helpers of the capacity contract C08.

     K1  grow_target_*        arithmetic on the GENERATED resize decision: growing a table of 2^k
                              buckets by one element asks for exactly twice the buckets (k >= 3),
                              resp. 8 or 16 buckets for the tiny tables
     K2  reserve_growth, insert_growth, foi_growth
                              a completed insert either keeps the bucket count, or the table was
                              full (growth_left = 0) and more than half of its capacity was LIVE,
                              and the new bucket count is at most max (2 * old) 16
     K3  Bounded              the invariant, preserved by every insert / remove of a history whose
                              live size never exceeds n; of unbounded length
     K4  Bounded_buckets, Bounded_allocation_size
                              explicit bounds on the bucket count and on the size of the block
     K5  with_capacity_contract, no_alloc_while_room
                              C08 helpers

   Arbitrary hasher (it may panic), repaired rehash guard.  No axioms. *)
From Coq Require Import ZArith List Bool Lia Permutation.
From HB Require Import RsPrelude Sse2 Gen Group Raw Check ArithFacts Triangular WFDefs GroupFacts
  ProbeFacts IterFacts SafeInsertErase SafeAllocClear FindFacts ResizeFacts RehashSafe WFInsertRemove
  RawOpsSafe.
Import ListNotations.
Open Scope Z_scope.

(* ------------------------------------------------------------------------------------------ *)
(* K1: the resize target of "grow by one"                                                       *)
(* ------------------------------------------------------------------------------------------ *)
(* the capacity of a table of 2^k buckets *)
Definition cap_of (k : Z) : Z := bucket_mask_to_capacity (2 ^ k - 1).

(* what reserve_rehash_inner passes to resize_inner when `items + 1` does not fit:
   reserve_rehash_resize_target (items + 1) full_capacity, without the (vacuous) wrap *)
Definition grow_target (k items : Z) : Z := Z.max (items + 1) (cap_of k + 1).

Lemma grow_target_eq k items : items <= cap_of k -> grow_target k items = cap_of k + 1.
Proof. unfold grow_target. lia. Qed.

Lemma pow2_split3 k : 3 <= k -> 2 ^ k = 8 * 2 ^ (k - 3).
Proof. intros H. replace k with (3 + (k - 3)) at 1 by lia. rewrite Z.pow_add_r by lia. reflexivity. Qed.

Lemma pow2_succ k : 0 <= k -> 2 ^ (k + 1) = 2 * 2 ^ k.
Proof. intros H. rewrite Z.pow_add_r by lia. lia. Qed.

(* k >= 4, i.e. at least 16 buckets: (cap + 1) * 8 / 7 = 2^k + 1, whose next power of two is
   2^(k+1): the table EXACTLY doubles *)
Lemma grow_target_large GWz k items tsz ca : 4 <= k <= 61 -> items <= cap_of k ->
  capacity_to_buckets GWz (grow_target k items) tsz ca = Some (2 * 2 ^ k).
Proof.
  intros Hk Hit. rewrite (grow_target_eq k items Hit). unfold cap_of.
  rewrite bmtc_pow2 by lia.
  pose proof (pow2_split3 k ltac:(lia)) as E.
  assert (Hp : 2 ^ 1 <= 2 ^ (k - 3)) by (apply pow2_le_mono; lia).
  assert (Hk61 : 2 ^ k <= 2 ^ 61) by (apply pow2_le_mono; lia).
  change (2 ^ 1) with 2 in Hp. change (2 ^ 61) with 2305843009213693952 in Hk61.
  rewrite ctb_large by lia. unfold checked_mul. rewrite two_p_64.
  destruct (Z.ltb_spec ((7 * 2 ^ (k - 3) + 1) * 8) 18446744073709551616) as [_|C]; [|lia].
  assert (Eq : (7 * 2 ^ (k - 3) + 1) * 8 / 7 = 2 ^ k + 1).
  { symmetry. apply (Z.div_unique _ 7 _ 1); lia. }
  rewrite Eq.
  destruct (npow2_spec (2 ^ k + 1)) as (j & Hj & -> & Hge & Hlt).
  { rewrite two_p_62. lia. }
  f_equal. rewrite <- pow2_succ by lia. f_equal.
  assert (k < j).
  { destruct (Z.lt_ge_cases k j); [assumption|]. pose proof (pow2_le_mono j k ltac:(lia)). lia. }
  assert (j - 1 <= k).
  { destruct (Z.le_gt_cases (j - 1) k); [assumption|].
    pose proof (pow2_le_mono (k + 1) (j - 1) ltac:(lia)) as H1. rewrite pow2_succ in H1 by lia.
    pose proof (pow2_pos k ltac:(lia)). lia. }
  lia.
Qed.

(* 8 buckets: cap + 1 = 8 takes the small-table branch, 16 buckets whatever the element size *)
Lemma grow_target_8 GWz items tsz ca : items <= cap_of 3 ->
  capacity_to_buckets GWz (grow_target 3 items) tsz ca = Some 16.
Proof.
  intros Hit. rewrite (grow_target_eq 3 items Hit). change (cap_of 3 + 1) with 8.
  rewrite ctb_small by lia. f_equal. unfold small_buckets. cbv zeta. case_cmp; lia.
Qed.

(* 4 buckets: cap + 1 = 4 gives 8 buckets -- EXCEPT for the 16-byte scanner with elements of at
   most one byte, where min_cap = 14 gives 16 buckets: the table quadruples *)
Lemma grow_target_4 GWz items tsz ca : items <= cap_of 2 ->
  capacity_to_buckets GWz (grow_target 2 items) tsz ca =
  Some (if (GWz =? 16) && (0 <=? tsz) && (tsz <=? 1) then 16 else 8).
Proof.
  intros Hit. rewrite (grow_target_eq 2 items Hit). change (cap_of 2 + 1) with 4.
  rewrite ctb_small by lia. f_equal. unfold small_buckets. cbv zeta. case_cmp; lia.
Qed.

(* the two sizes below 4 buckets (they never arise from capacity_to_buckets, but SafeWF allows
   2 buckets, and 1 bucket is the static singleton) *)
Lemma grow_target_tiny GWz k items tsz ca : 0 <= k <= 1 -> items <= cap_of k ->
  capacity_to_buckets GWz (grow_target k items) tsz ca = Some (small_buckets GWz tsz (k + 1)) /\
  (small_buckets GWz tsz (k + 1) = 4 \/ small_buckets GWz tsz (k + 1) = 8 \/
   small_buckets GWz tsz (k + 1) = 16).
Proof.
  intros Hk Hit. rewrite (grow_target_eq k items Hit).
  assert (E : cap_of k + 1 = k + 1) by (assert (k = 0 \/ k = 1) as [-> | ->] by lia; reflexivity).
  rewrite E. rewrite ctb_small by lia. split; [reflexivity|].
  unfold small_buckets. cbv zeta. case_cmp; lia.
Qed.

(* the first allocation: from the singleton (capacity 0, no item) the target is max 1 1 = 1 *)
Theorem first_alloc_buckets GWz tsz ca :
  grow_target 0 0 = 1 /\
  exists b, capacity_to_buckets GWz (grow_target 0 0) tsz ca = Some b /\ (b = 4 \/ b = 8 \/ b = 16).
Proof.
  split; [reflexivity|].
  destruct (grow_target_tiny GWz 0 0 tsz ca ltac:(lia) ltac:(reflexivity)) as (E & H).
  eexists. split; [exact E|exact H].
Qed.

(* K1, as an equation: from 8 buckets on, growing by one exactly doubles *)
Theorem grow_target_doubles GWz k items tsz ca : 3 <= k <= 61 -> items <= cap_of k ->
  capacity_to_buckets GWz (grow_target k items) tsz ca = Some (2 * 2 ^ k).
Proof.
  intros Hk Hit. destruct (Z.eq_dec k 3) as [->|Hk3].
  - exact (grow_target_8 GWz items tsz ca Hit).
  - apply grow_target_large; [lia|exact Hit].
Qed.

(* K1, for every size: the new bucket count is at least twice the old one, and at most
   max (twice the old one) 16 *)
Theorem grow_target_buckets GWz k items tsz ca : 0 <= k <= 61 -> items <= cap_of k ->
  exists nb', capacity_to_buckets GWz (grow_target k items) tsz ca = Some nb' /\
    2 * 2 ^ k <= nb' <= Z.max (2 * 2 ^ k) 16.
Proof.
  intros Hk Hit.
  destruct (Z.le_gt_cases 3 k) as [H3|H3].
  - exists (2 * 2 ^ k). split; [apply grow_target_doubles; [lia|exact Hit]|lia].
  - destruct (Z.eq_dec k 2) as [->|Hk2].
    + eexists. split; [exact (grow_target_4 GWz items tsz ca Hit)|].
      change (2 * 2 ^ 2) with 8. destruct ((GWz =? 16) && (0 <=? tsz) && (tsz <=? 1)); lia.
    + destruct (grow_target_tiny GWz k items tsz ca ltac:(lia) Hit) as (E & H).
      eexists. split; [exact E|].
      pose proof (pow2_le_mono k 1 ltac:(lia)) as Hle. change (2 ^ 1) with 2 in Hle.
      pose proof (pow2_pos k ltac:(lia)). lia.
Qed.

(* 2^62 buckets cannot grow: the multiplication by 8 is reported as an overflow *)
Lemma grow_target_overflow GWz items tsz ca : items <= cap_of 62 ->
  capacity_to_buckets GWz (grow_target 62 items) tsz ca = None.
Proof.
  intros Hit. rewrite (grow_target_eq 62 items Hit). vm_compute. reflexivity.
Qed.

(* the form used below: whenever the target has a bucket count at all *)
Corollary grow_target_bound GWz k items tsz ca nb' : 0 <= k <= 62 -> items <= cap_of k ->
  capacity_to_buckets GWz (grow_target k items) tsz ca = Some nb' ->
  2 * 2 ^ k <= nb' <= Z.max (2 * 2 ^ k) 16.
Proof.
  intros Hk Hit E. destruct (Z.eq_dec k 62) as [->|Hk62].
  - rewrite grow_target_overflow in E by exact Hit. discriminate E.
  - destruct (grow_target_buckets GWz k items tsz ca ltac:(lia) Hit) as (b & Eb & Hb).
    rewrite Eb in E. injection E as <-. exact Hb.
Qed.

(* "growing always exactly doubles" is FALSE for 4 buckets with the 16-byte scanner and elements
   of at most one byte: cap = 3, target 4, min_cap = 14, 16 buckets = 4 * 4 *)
Example grow_4_quadruples :
  capacity_to_buckets 16 (grow_target 2 3) 1 16 = Some 16 /\ cap_of 2 = 3 /\ 2 * 2 ^ 2 = 8.
Proof. repeat split. Qed.

Section Churn.
  Variable B : backend.
  Variable T : Type.
  Hypothesis HW : WidthOK B.
  Hypothesis HB : BackendSpec B.

  Variable tsize talign : Z.
  Hypothesis Hts : 0 <= tsize < 2 ^ 64.
  Hypothesis Hta : exists a : Z, 0 <= a <= 62 /\ talign = 2 ^ a.

  Variable needs_drop : bool.
  Variable hasher : T -> option Z.

  Local Notation GW := (bk_width B).
  Local Notation OWN := (TOwn B T tsize talign).
  Local Notation INSERT t h v ar := (Raw.insert B T tsize talign needs_drop hasher true t h v ar).
  Local Notation RESERVE t a ar := (reserve B T tsize talign needs_drop hasher true t a ar).
  Local Notation FOI t h P ar :=
    (find_or_find_insert_slot B T tsize talign needs_drop hasher true t h (pure_eq P) ar).

  (* ---------------------------------------------------------------------------------------- *)
  (* small facts                                                                                *)
  (* ---------------------------------------------------------------------------------------- *)
  (* every SafeWF table has 2^k buckets, 0 <= k <= 62 (k = 0: the static singleton) *)
  Lemma safe_pow2 t : SafeWF B T t ->
    exists k, 0 <= k <= 62 /\ zn (nb T t) = 2 ^ k /\ z_cap (mask t) = cap_of k /\
      (mask t = 0%nat -> k = 0).
  Proof.
    intros H. destruct (Nat.eq_dec (mask t) 0) as [Hm|Hm].
    - exists 0. unfold nb, buckets, z_cap, cap_of. rewrite Hm.
      split; [lia|]. split; [reflexivity|]. split; [reflexivity|]. intros _. reflexivity.
    - destruct (SafeWF_alloc B T t H Hm) as (HS & _).
      destruct (MaskOK_zn _ (Shape_MaskOK B T t HS)) as (k & Hk & E & Em).
      exists k. split; [lia|]. split; [exact E|].
      split; [unfold z_cap, cap_of; rewrite Em; reflexivity|]. intros C. contradiction.
  Qed.

  Lemma nb_of_mask (t t' : table T) : mask t' = mask t -> nb T t' = nb T t.
  Proof. intros E. unfold nb, buckets. rewrite E. reflexivity. Qed.

  (* the structural operations never touch the mask *)
  Lemma set_ctrl_mask (t t' : table T) i b : set_ctrl B T t i b = Ok t' -> mask t' = mask t.
  Proof.
    unfold set_ctrl. destruct (is_singleton T t); [discriminate|].
    destruct ((i <? length (ctrl t))%nat && (n_index2 GW (mask t) i <? length (ctrl t))%nat);
      [|discriminate].
    intros E. injection E as <-. reflexivity.
  Qed.

  Lemma slot_write_mask (t t' : table T) i e : slot_write T t i e = Ok t' -> mask t' = mask t.
  Proof.
    unfold slot_write. destruct (is_singleton T t); [discriminate|].
    destruct (i <? length (slots t))%nat; [|discriminate].
    intros E. injection E as <-. reflexivity.
  Qed.

  Lemma insert_in_slot_mask (t t' : table T) hash s v :
    insert_in_slot B T t hash s v = Ok t' -> mask t' = mask t.
  Proof.
    unfold insert_in_slot. destruct (ctrl_at T t s) as [old|]; cbn [bind]; [|discriminate].
    unfold Raw.record_item_insert_at, Gen.record_item_insert_at, set_ctrl_hash. cbv zeta.
    destruct (set_ctrl B T t s (tag_full hash)) as [t1|] eqn:E1; cbn [bind]; [|discriminate].
    apply set_ctrl_mask in E1.
    match goal with |- (if ?c then _ else _) = _ -> _ => destruct c end; [|discriminate].
    intros E. apply slot_write_mask in E. cbn [mask with_counts] in E. congruence.
  Qed.

  Lemma remove_mask (t t' : table T) i e : remove B T t i = Ok (e, t') -> mask t' = mask t.
  Proof.
    unfold remove. destruct (buckets T t <=? i)%nat; [discriminate|].
    unfold erase.
    destruct (load B T t (n_index_before GW (mask t) i)) as [gb|]; cbn [bind]; [|discriminate].
    destruct (load B T t i) as [ga|]; cbn [bind]; [|discriminate].
    match goal with |- context [set_ctrl B T t i ?c] =>
      destruct (set_ctrl B T t i c) as [t1|] eqn:E1 end; cbn [bind]; [|discriminate].
    apply set_ctrl_mask in E1.
    unfold slot_take.
    match goal with |- context [slot_ref T ?x i] => destruct (slot_ref T x i) as [e0|] end;
      cbn [bind]; [|discriminate].
    intros E. injection E as _ <-. cbn [mask with_slots with_counts]. exact E1.
  Qed.

  Lemma erase_drop_mask (t t' : table T) i evs :
    erase_drop B T needs_drop t i = Ok (t', evs) -> mask t' = mask t.
  Proof.
    unfold erase_drop. destruct (remove B T t i) as [[e t1]|] eqn:E1; cbn [bind]; [|discriminate].
    intros E. injection E as <- _. exact (remove_mask t t1 i e E1).
  Qed.

  (* ---------------------------------------------------------------------------------------- *)
  (* K2: when, and by how much, an insert grows the table                                       *)
  (* ---------------------------------------------------------------------------------------- *)
  (* t' is the result of growing t: t was full, more than half of its capacity was live
     (items + 1 > capacity / 2: the generated test reserve_rehash_in_place failed), the new
     bucket count is the one capacity_to_buckets gives for the generated resize target, which is
     at least twice, and at most max (twice) 16, the old one *)
  Definition Grown (t t' : table T) : Prop :=
    growth_left t = 0 /\ z_cap (mask t) / 2 < items t + 1 /\
    reserve_rehash_in_place (items t + 1) (z_cap (mask t)) = false /\
    ctb B tsize talign (reserve_rehash_resize_target (items t + 1) (z_cap (mask t))) = Some (zn (nb T t')) /\
    2 * zn (nb T t) <= zn (nb T t') <= Z.max (2 * zn (nb T t)) 16.

  Lemma Grown_same_mask t t1 t2 : mask t2 = mask t1 -> Grown t t1 -> Grown t t2.
  Proof. intros E H. unfold Grown in *. rewrite (nb_of_mask t1 t2 E). exact H. Qed.

  Lemma Grown_half t t' : Grown t t' -> z_cap (mask t) < 2 * (items t + 1).
  Proof.
    intros (_ & H & _). pose proof (Z.div_mod (z_cap (mask t)) 2 ltac:(lia)).
    pose proof (Z.mod_pos_bound (z_cap (mask t)) 2 ltac:(lia)). lia.
  Qed.

  Lemma reserve_growth t ar t' evs tr unw : SafeWF B T t -> OWN t ->
    RESERVE t 1 ar = Ok (t', evs, tr, unw) ->
    mask t' = mask t \/ (unw = false /\ Grown t t').
  Proof.
    intros Hsafe HA.
    destruct (safe_counts B T t Hsafe) as (Hi0 & Hg0 & Hsum & Hcapnb & Hnb62).
    destruct (safe_pow2 t Hsafe) as (k & Hk & Enb & Ecap & _).
    rewrite two_p_62 in Hnb62.
    unfold reserve.
    destruct (Z.gtb_spec 1 (growth_left t)) as [Hgt|Hle].
    2:{ intros E. inversion E; subst. left. reflexivity. }
    unfold reserve_rehash, reserve_rehash_new_items, checked_add.
    destruct (Z.ltb_spec (items t + 1) (2 ^ 64)) as [Hlt|Hge].
    2:{ cbn [capacity_overflow bind]. discriminate. }
    change (reserve_rehash_full_capacity (zn (mask t))) with (z_cap (mask t)).
    destruct (reserve_rehash_in_place (items t + 1) (z_cap (mask t))) eqn:Eip.
    - (* rehash in place: same block *)
      rewrite reserve_rehash_in_place_char in Eip by lia. apply Z.leb_le in Eip.
      assert (Hm : mask t <> 0%nat).
      { intros C. rewrite C in Eip. change (z_cap 0 / 2) with 0 in Eip. lia. }
      destruct (rehash_in_place_safe B T HW HB needs_drop hasher t Hsafe Hm)
        as (t1 & evs1 & unw1 & E1 & _ & Em & _).
      rewrite E1. cbn [bind]. intros E. inversion E; subst. left. exact Em.
    - (* resize *)
      pose proof Eip as Hhalf. rewrite reserve_rehash_in_place_char in Hhalf by lia. apply Z.leb_gt in Hhalf.
      assert (Etgt : reserve_rehash_resize_target (items t + 1) (z_cap (mask t))
                     = Z.max (items t + 1) (z_cap (mask t) + 1)).
      { unfold reserve_rehash_resize_target, wadd. rewrite wrap_small; [reflexivity|].
        rewrite two_p_64. lia. }
      set (cap := reserve_rehash_resize_target (items t + 1) (z_cap (mask t))) in *.
      assert (Hcap : items t <= cap < 2 ^ 64) by (rewrite Etgt, two_p_64 in *; lia).
      pose proof (resize_inner_spec B T HW HB tsize talign Hts Hta hasher t cap ar Infallible Hsafe HA Hcap) as H.
      destruct (resize_inner B T tsize talign hasher t cap ar Infallible) as [[[[t1 evs1] tr1] unw1]|er];
        cbn [bind]; [|discriminate].
      destruct tr1; try discriminate. intros E. inversion E; subst. cbn [resize_post] in H.
      destruct unw.
      + destruct H as (-> & _). left. reflexivity.
      + destruct H as (_ & _ & _ & _ & _ & _ & _ & aevs & fevs & _ & HAl & _).
        destruct HAl as [(Hc0 & _) | (_ & _ & _ & Hctb & _)]; [rewrite Etgt in Hc0; lia|].
        right. split; [reflexivity|].
        split; [lia|]. split; [exact Hhalf|]. split; [exact Eip|]. split; [exact Hctb|].
        unfold ctb in Hctb. rewrite Etgt, Ecap in Hctb. fold (grow_target k (items t)) in Hctb.
        rewrite Enb. apply (grow_target_bound _ k (items t) _ _ _ Hk ltac:(lia) Hctb).
  Qed.

  (* K2 for RawTable::insert: whatever the outcome (completed, or unwound by a panicking hasher) *)
  Theorem insert_growth t hash value ar t' evs unw r : SafeWF B T t -> OWN t ->
    INSERT t hash value ar = Ok (t', evs, unw, r) ->
    mask t' = mask t \/ (unw = false /\ Grown t t').
  Proof.
    intros Hsafe HA. unfold Raw.insert.
    destruct (find_insert_slot B T t hash) as [s0|]; cbn [bind]; [|discriminate].
    destruct (ctrl_at T t s0) as [old|]; cbn [bind]; [|discriminate].
    destruct ((growth_left t =? 0) && tag_special_is_empty old).
    - destruct (RESERVE t 1 ar) as [[[[t1 evs1] tr1] unw1]|] eqn:Er; cbn [bind]; [|discriminate].
      pose proof (reserve_growth t ar t1 evs1 tr1 unw1 Hsafe HA Er) as Hg.
      destruct unw1.
      + intros E. inversion E; subst. exact Hg.
      + destruct (find_insert_slot B T t1 hash) as [s1|]; cbn [bind]; [|discriminate].
        destruct (insert_in_slot B T t1 hash s1 value) as [t2|] eqn:Ei; cbn [bind]; [|discriminate].
        intros E. inversion E; subst. apply insert_in_slot_mask in Ei.
        destruct Hg as [Hg|(_ & Hg)].
        * left. congruence.
        * right. split; [reflexivity|]. exact (Grown_same_mask t t1 t' Ei Hg).
    - destruct (insert_in_slot B T t hash s0 value) as [t2|] eqn:Ei; cbn [bind]; [|discriminate].
      intros E. inversion E; subst. left. exact (insert_in_slot_mask _ _ _ _ _ Ei).
  Qed.

  (* the form asked for: a completed insert *)
  Corollary insert_growth_ok t hash value t' evs s : SafeWF B T t -> OWN t ->
    INSERT t hash value false = Ok (t', evs, false, Some s) ->
    nb T t' = nb T t \/
    (growth_left t = 0 /\ 2 * items t + 2 > z_cap (mask t) /\
     2 * zn (nb T t) <= zn (nb T t') <= Z.max (2 * zn (nb T t)) 16).
  Proof.
    intros Hsafe HA E. destruct (insert_growth t hash value false t' evs false (Some s) Hsafe HA E)
      as [Em|(_ & Hg)].
    - left. exact (nb_of_mask t t' Em).
    - right. pose proof (Grown_half t t' Hg). destruct Hg as (H1 & _ & _ & _ & H5).
      split; [exact H1|]. split; [lia|exact H5].
  Qed.

  (* K2 for find_or_find_insert_slot: the reserve(1) it performs BEFORE looking the key up, hence
     also when the key is present *)
  Theorem foi_growth t hash (eqf : T -> res bool) ar t' evs unw r : SafeWF B T t -> OWN t ->
    find_or_find_insert_slot B T tsize talign needs_drop hasher true t hash eqf ar = Ok (t', evs, unw, r) ->
    mask t' = mask t \/ (unw = false /\ Grown t t').
  Proof.
    intros Hsafe HA. unfold find_or_find_insert_slot.
    destruct (RESERVE t 1 ar) as [[[[t1 evs1] tr1] unw1]|] eqn:Er; cbn [bind]; [|discriminate].
    pose proof (reserve_growth t ar t1 evs1 tr1 unw1 Hsafe HA Er) as Hg.
    destruct unw1.
    - intros E. inversion E; subst. exact Hg.
    - destruct (find_or_find_insert_slot_inner B T t1 hash (eq_at T t1 eqf)); cbn [bind]; [|discriminate].
      intros E. inversion E; subst. exact Hg.
  Qed.

  Corollary foi_growth_ok t hash P ar t' evs r : SafeWF B T t -> OWN t ->
    FOI t hash P ar = Ok (t', evs, false, r) ->
    nb T t' = nb T t \/
    (growth_left t = 0 /\ 2 * items t + 2 > z_cap (mask t) /\
     2 * zn (nb T t) <= zn (nb T t') <= Z.max (2 * zn (nb T t)) 16).
  Proof.
    intros Hsafe HA E. destruct (foi_growth t hash (pure_eq P) ar t' evs false r Hsafe HA E)
      as [Em|(_ & Hg)].
    - left. exact (nb_of_mask t t' Em).
    - right. pose proof (Grown_half t t' Hg). destruct Hg as (H1 & _ & _ & _ & H5).
      split; [exact H1|]. split; [lia|exact H5].
  Qed.

  (* the first insert into the singleton allocates at most 16 buckets *)
  Corollary Grown_singleton t t' : SafeWF B T t -> mask t = 0%nat -> Grown t t' ->
    4 <= zn (nb T t') <= 16 /\ (zn (nb T t') = 4 \/ zn (nb T t') = 8 \/ zn (nb T t') = 16).
  Proof.
    intros Hsafe Hm (_ & _ & _ & Hctb & _).
    rewrite (safe_singleton B T t Hsafe Hm) in Hctb. cbn [items mask new_table] in Hctb.
    change (reserve_rehash_resize_target (0 + 1) (z_cap 0)) with (grow_target 0 0) in Hctb.
    destruct (first_alloc_buckets (zn GW) (lay_size B tsize talign) (ctrl_align B tsize talign))
      as (_ & b & Eb & Hb).
    unfold ctb in Hctb. rewrite Eb in Hctb. assert (b = zn (nb T t')) by congruence. lia.
  Qed.

  (* ---------------------------------------------------------------------------------------- *)
  (* K3: the invariant                                                                          *)
  (* ---------------------------------------------------------------------------------------- *)
  (* the table has at most 16 buckets, or the table of half its size could not have held twice
     the live elements (plus one): n is the bound on the number of live elements *)
  Definition Bounded (n : Z) (t : table T) : Prop :=
    zn (nb T t) <= 16 \/ bucket_mask_to_capacity (zn (nb T t) / 2 - 1) < 2 * (n + 1).

  Lemma Bounded_new_table n : Bounded n (new_table B T).
  Proof. left. unfold nb, buckets. cbn [mask new_table]. change (zn 1) with 1. lia. Qed.

  Lemma Bounded_same_mask n t t' : mask t' = mask t -> Bounded n t -> Bounded n t'.
  Proof. intros E H. unfold Bounded in *. rewrite (nb_of_mask t t' E). exact H. Qed.

  Lemma Bounded_mono n m t : n <= m -> Bounded n t -> Bounded m t.
  Proof. intros Hnm [H|H]; [left; exact H|right; lia]. Qed.

  (* the growth step: the new half-size is the old size, whose capacity is less than twice the
     live elements (plus one) *)
  Lemma Bounded_grown n t t' : items t <= n -> Grown t t' -> Bounded n t'.
  Proof.
    intros Hn Hg. pose proof (Grown_half t t' Hg) as Hhalf. destruct Hg as (_ & _ & _ & _ & Hb).
    destruct (Z.le_gt_cases (zn (nb T t')) 16) as [H16|H16]; [left; exact H16|right].
    assert (E : zn (nb T t') = zn (nb T t) * 2) by lia.
    rewrite E, Z.div_mul by lia.
    replace (zn (nb T t) - 1) with (zn (mask t)) by (unfold nb, buckets, zn; lia).
    change (bucket_mask_to_capacity (zn (mask t))) with (z_cap (mask t)). lia.
  Qed.

  Lemma Bounded_step n t t' unw : items t <= n -> Bounded n t ->
    mask t' = mask t \/ (unw = false /\ Grown t t') -> Bounded n t'.
  Proof.
    intros Hn Hb [Em|(_ & Hg)]; [exact (Bounded_same_mask n t t' Em Hb)|exact (Bounded_grown n t t' Hn Hg)].
  Qed.

  (* every operation of a churn history preserves the invariant *)
  Theorem insert_Bounded n t hash value ar t' evs unw r : SafeWF B T t -> OWN t ->
    items t <= n -> Bounded n t ->
    INSERT t hash value ar = Ok (t', evs, unw, r) -> Bounded n t'.
  Proof.
    intros Hsafe HA Hn Hb E.
    exact (Bounded_step n t t' unw Hn Hb (insert_growth t hash value ar t' evs unw r Hsafe HA E)).
  Qed.

  Theorem foi_Bounded n t hash eqf ar t' evs unw r : SafeWF B T t -> OWN t ->
    items t <= n -> Bounded n t ->
    find_or_find_insert_slot B T tsize talign needs_drop hasher true t hash eqf ar = Ok (t', evs, unw, r) ->
    Bounded n t'.
  Proof.
    intros Hsafe HA Hn Hb E.
    exact (Bounded_step n t t' unw Hn Hb (foi_growth t hash eqf ar t' evs unw r Hsafe HA E)).
  Qed.

  Theorem insert_in_slot_Bounded n t hash s v t' :
    Bounded n t -> insert_in_slot B T t hash s v = Ok t' -> Bounded n t'.
  Proof. intros Hb E. exact (Bounded_same_mask n t t' (insert_in_slot_mask t t' hash s v E) Hb). Qed.

  Theorem remove_Bounded n t i e t' : Bounded n t -> remove B T t i = Ok (e, t') -> Bounded n t'.
  Proof. intros Hb E. exact (Bounded_same_mask n t t' (remove_mask t t' i e E) Hb). Qed.

  Theorem erase_drop_Bounded n t i t' evs :
    Bounded n t -> erase_drop B T needs_drop t i = Ok (t', evs) -> Bounded n t'.
  Proof. intros Hb E. exact (Bounded_same_mask n t t' (erase_drop_mask t t' i evs E) Hb). Qed.

  (* the in-place rehash keeps the size *)
  Theorem rehash_in_place_Bounded n t : SafeWF B T t -> mask t <> 0%nat -> Bounded n t ->
    exists t' evs unw, rehash_in_place B T needs_drop hasher true t = Ok (t', evs, unw) /\ Bounded n t'.
  Proof.
    intros Hsafe Hm Hb.
    destruct (rehash_in_place_safe B T HW HB needs_drop hasher t Hsafe Hm) as (t' & evs & unw & E & _ & Em & _).
    exists t', evs, unw. split; [exact E|exact (Bounded_same_mask n t t' Em Hb)].
  Qed.

  (* ---- histories ---- *)
  Lemma full_not_singleton t i : SafeWF B T t -> (i < nb T t)%nat -> is_full (byte T t i) = true ->
    mask t <> 0%nat.
  Proof.
    intros Hsafe Hi Hf C. rewrite (safe_singleton B T t Hsafe C) in Hi, Hf.
    rewrite (new_table_bytes_empty B T HW i Hi) in Hf. discriminate Hf.
  Qed.

  (* one operation of the raw interface, as HashMap / HashSet / HashTable use it:
     - RawTable::insert (the key is assumed absent by the caller; any hash, any value; the
       allocator may refuse; the hasher may panic, in which case the insert is unwound);
     - RawTable::find_or_find_insert_slot alone (the key is present, or the call unwound, or the
       caller drops the slot): it performs reserve(1) in every case;
     - find_or_find_insert_slot followed by insert_in_slot into the slot it returned;
     - RawTable::remove / RawTable::erase of a FULL bucket *)
  Inductive step : table T -> table T -> Prop :=
  | step_insert t hash value ar t' evs unw r :
      INSERT t hash value ar = Ok (t', evs, unw, r) -> step t t'
  | step_lookup t hash P ar t1 evs unw r :
      FOI t hash P ar = Ok (t1, evs, unw, r) -> step t t1
  | step_entry_insert t hash P ar t1 evs s hash' value t' :
      FOI t hash P ar = Ok (t1, evs, false, Some (inr s)) ->
      insert_in_slot B T t1 hash' s value = Ok t' -> step t t'
  | step_remove t i e t' :
      (i < nb T t)%nat -> is_full (byte T t i) = true -> remove B T t i = Ok (e, t') -> step t t'
  | step_erase t i t' evs :
      (i < nb T t)%nat -> is_full (byte T t i) = true ->
      erase_drop B T needs_drop t i = Ok (t', evs) -> step t t'.

  Lemma step_safe t t' : SafeWF B T t -> OWN t -> step t t' -> SafeWF B T t' /\ OWN t'.
  Proof.
    intros Hsafe HA Hst. destruct Hst as [t hash value ar t' evs unw r E | t hash P ar t1 evs unw r E
      | t hash P ar t1 evs s hash' value t' E Ei | t i e t' Hi Hf E | t i t' evs Hi Hf E].
    - pose proof (insert_spec B T HW HB tsize talign Hts Hta needs_drop hasher t hash value ar Hsafe HA) as H.
      rewrite E in H. destruct unw; cbn [insert_post] in H.
      + destruct H as (_ & H1 & H2 & _). split; assumption.
      + destruct r as [s|]; [|contradiction]. destruct H as (H1 & H2 & _). split; assumption.
    - pose proof (find_or_find_insert_slot_spec B T HW HB tsize talign Hts Hta needs_drop hasher t hash P ar Hsafe HA) as H.
      rewrite E in H. destruct unw; cbn [foi_post] in H.
      + destruct H as (_ & H1 & H2 & _). split; assumption.
      + destruct r as [[i|s]|]; [| |contradiction]; destruct H as ((H1 & H2 & _) & _); split; assumption.
    - pose proof (find_or_find_insert_slot_spec B T HW HB tsize talign Hts Hta needs_drop hasher t hash P ar Hsafe HA) as H.
      rewrite E in H. cbn [foi_post] in H.
      destruct H as ((H1 & H2 & _ & _ & Hg & Hm & _) & Hs & Hsp).
      destruct (insert_in_slot_safe B T HW t1 s hash' value H1 Hm Hs Hsp ltac:(intros _; exact Hg))
        as (t2 & E2 & Hs2 & Em2 & _).
      rewrite E2 in Ei. injection Ei as <-.
      split; [exact Hs2|exact (TOwn_same_mask B T tsize talign t1 t2 Em2 H2)].
    - pose proof (full_not_singleton t i Hsafe Hi Hf) as Hm.
      destruct (remove_safe B T HW t i Hsafe Hm Hi Hf) as (e0 & t0 & E0 & _ & Hs0 & Em0 & _).
      rewrite E0 in E. injection E as _ <-.
      split; [exact Hs0|exact (TOwn_same_mask B T tsize talign t t0 Em0 HA)].
    - pose proof (full_not_singleton t i Hsafe Hi Hf) as Hm.
      destruct (erase_drop_safe B T HW needs_drop t i Hsafe Hm Hi Hf) as (e0 & t0 & E0 & _ & Hs0 & Em0 & _).
      rewrite E0 in E. injection E as <- _.
      split; [exact Hs0|exact (TOwn_same_mask B T tsize talign t t0 Em0 HA)].
  Qed.

  Lemma step_Bounded n t t' : SafeWF B T t -> OWN t -> items t <= n -> Bounded n t -> step t t' ->
    Bounded n t'.
  Proof.
    intros Hsafe HA Hn Hb Hst. destruct Hst as [t hash value ar t' evs unw r E | t hash P ar t1 evs unw r E
      | t hash P ar t1 evs s hash' value t' E Ei | t i e t' Hi Hf E | t i t' evs Hi Hf E].
    - exact (insert_Bounded n t hash value ar t' evs unw r Hsafe HA Hn Hb E).
    - exact (foi_Bounded n t hash (pure_eq P) ar t1 evs unw r Hsafe HA Hn Hb E).
    - apply (insert_in_slot_Bounded n t1 hash' s value t'); [|exact Ei].
      exact (foi_Bounded n t hash (pure_eq P) ar t1 evs false _ Hsafe HA Hn Hb E).
    - exact (remove_Bounded n t i e t' Hb E).
    - exact (erase_drop_Bounded n t i t' evs Hb E).
  Qed.

  (* a history of ANY length, each operation applied to a table with at most n live elements *)
  Inductive history (n : Z) (t0 : table T) : table T -> Prop :=
  | hist_nil : history n t0 t0
  | hist_snoc t t' : history n t0 t -> items t <= n -> step t t' -> history n t0 t'.

  Theorem churn_invariant n t0 t : SafeWF B T t0 -> OWN t0 -> Bounded n t0 -> history n t0 t ->
    SafeWF B T t /\ OWN t /\ Bounded n t.
  Proof.
    intros Hsafe HA Hb Hh. induction Hh as [|t t' Hh IH Hn Hst].
    - split; [exact Hsafe|]. split; [exact HA|exact Hb].
    - destruct IH as (Hs & Ha & Hbt). destruct (step_safe t t' Hs Ha Hst) as (Hs' & Ha').
      split; [exact Hs'|]. split; [exact Ha'|]. exact (step_Bounded n t t' Hs Ha Hn Hbt Hst).
  Qed.

  (* C13: starting from an empty map, however long the insert / remove churn lasts *)
  Corollary churn_bounded n t : history n (new_table B T) t -> SafeWF B T t /\ OWN t /\ Bounded n t.
  Proof.
    apply churn_invariant; [reflexivity|apply TOwn_new_table|apply Bounded_new_table].
  Qed.

  (* ---------------------------------------------------------------------------------------- *)
  (* K4: the invariant, in buckets and in bytes                                                 *)
  (* ---------------------------------------------------------------------------------------- *)
  (* for nb > 16 the half-size table has nb / 2 >= 16 buckets and capacity 7 * nb / 16 *)
  Theorem Bounded_buckets n t : SafeWF B T t -> Bounded n t ->
    zn (nb T t) <= 16 \/ 7 * zn (nb T t) < 32 * (n + 1).
  Proof.
    intros Hsafe [H|H]; [left; exact H|].
    destruct (Z.le_gt_cases (zn (nb T t)) 16) as [H16|H16]; [left; exact H16|right].
    destruct (safe_pow2 t Hsafe) as (k & Hk & Enb & _).
    rewrite Enb in H, H16 |- *.
    assert (Hk5 : 5 <= k).
    { destruct (Z.le_gt_cases 5 k); [assumption|].
      pose proof (pow2_le_mono k 4 ltac:(lia)) as Hle. change (2 ^ 4) with 16 in Hle. lia. }
    assert (E : 2 ^ k = 2 ^ (k - 1) * 2).
    { replace k with ((k - 1) + 1) at 1 by lia. rewrite pow2_succ by lia. lia. }
    rewrite E, Z.div_mul in H by lia. rewrite bmtc_pow2 in H by lia.
    replace (k - 1 - 3) with (k - 4) in H by lia.
    assert (E16 : 2 ^ k = 16 * 2 ^ (k - 4)).
    { replace k with (4 + (k - 4)) at 1 by lia. rewrite Z.pow_add_r by lia. reflexivity. }
    lia.
  Qed.

  Corollary Bounded_buckets_max n t : SafeWF B T t -> Bounded n t ->
    zn (nb T t) <= Z.max 16 (32 * (n + 1) / 7).
  Proof.
    intros Hsafe Hb. destruct (Bounded_buckets n t Hsafe Hb) as [H|H]; [lia|].
    assert (zn (nb T t) <= 32 * (n + 1) / 7) by (apply Z.div_le_lower_bound; lia). lia.
  Qed.

  (* fewer than 5 buckets per live element (plus one), or at most 16 buckets *)
  Corollary Bounded_buckets_5 n t : SafeWF B T t -> Bounded n t ->
    zn (nb T t) <= Z.max 16 (5 * (n + 1)).
  Proof. intros Hsafe Hb. destruct (Bounded_buckets n t Hsafe Hb) as [H|H]; lia. Qed.

  (* the size of the block of a table of n buckets: less than (tsize + 1) bytes per bucket, plus
     the alignment padding and the Group::WIDTH trailing control bytes *)
  Lemma layout_for_upper n k len al off : 0 <= k <= 62 -> zn n = 2 ^ k ->
    layout_for B tsize talign n = Some (len, al, off) ->
    0 <= len < (tsize + 1) * zn n + ctrl_align B tsize talign + zn GW.
  Proof.
    intros Hk Hn. unfold layout_for.
    destruct (ctrl_align_pow2 B HW tsize talign Hta) as (j & Hj & Ej & HGj).
    rewrite lay_size_eq, Ej, Hn.
    rewrite calculate_layout_for_spec by (try exact (sac_GW_Z B HW); try lia; exact Hts).
    destruct (layout_result (zn GW) tsize (2 ^ j) (2 ^ k)) as [[[l a] o]|] eqn:E; [|discriminate].
    intros H. injection H as -> -> ->.
    pose proof (pow2_pos j ltac:(lia)) as Hpj. pose proof (pow2_pos k ltac:(lia)) as Hpk.
    apply layout_result_ok in E; try (exact (sac_GW_Z B HW) || lia).
    destruct E as (_ & _ & Hlo & Hhi & -> & _).
    assert (0 <= tsize * 2 ^ k) by nia.
    destruct (sac_GW_Z B HW) as [G|G]; rewrite G in *; lia.
  Qed.

  Theorem Bounded_allocation_size n t : SafeWF B T t -> OWN t -> Bounded n t ->
    exists len, allocation_size B T tsize talign t = Ok len /\
      0 <= len <= (tsize + 1) * Z.max 16 (32 * (n + 1) / 7) + ctrl_align B tsize talign + zn GW.
  Proof.
    intros Hsafe HA Hb.
    destruct (ctrl_align_pow2 B HW tsize talign Hta) as (j & Hj & Ej & HGj).
    pose proof (pow2_pos j ltac:(lia)) as Hpj.
    assert (Hmul : forall x, 0 <= x -> 0 <= (tsize + 1) * x) by (intros; apply Z.mul_nonneg_nonneg; lia).
    assert (HG0 : 0 <= zn GW) by (unfold zn; lia).
    unfold allocation_size, is_singleton.
    destruct (Nat.eqb_spec (mask t) 0) as [Hm|Hm].
    - exists 0. split; [reflexivity|]. pose proof (Hmul (Z.max 16 (32 * (n + 1) / 7)) ltac:(lia)). lia.
    - destruct (TOwn_allocated B T tsize talign t HA Hm) as (_ & len & al & off & El).
      change (buckets T t) with (nb T t). rewrite El. exists len. split; [reflexivity|].
      destruct (safe_pow2 t Hsafe) as (k & Hk & Enb & _).
      pose proof (layout_for_upper (nb T t) k len al off Hk Enb El) as Hlen.
      pose proof (Bounded_buckets_max n t Hsafe Hb) as Hmax.
      assert ((tsize + 1) * zn (nb T t) <= (tsize + 1) * Z.max 16 (32 * (n + 1) / 7))
        by (apply Z.mul_le_mono_nonneg_l; lia).
      lia.
  Qed.

  (* ---------------------------------------------------------------------------------------- *)
  (* K5: helpers of the capacity contract (C08), at the raw level                               *)
  (* ---------------------------------------------------------------------------------------- *)
  (* with_capacity(cap): the room asked for is there; at most one allocation *)
  Theorem with_capacity_contract cap ar f t' evs tr : 0 <= cap < 2 ^ 64 ->
    fallible_with_capacity B T tsize talign cap ar f = Ok (Some t', evs, tr) ->
    tr = TR_ok /\ SafeWF B T t' /\ OWN t' /\ items t' = 0 /\ occupants T t' = [] /\
    cap <= capacity T t' /\
    (cap = 0 -> t' = new_table B T /\ evs = []) /\
    (cap <> 0 -> mask t' <> 0%nat /\ exists len al, evs = [EvAlloc len al] /\ ValidLayout len al).
  Proof.
    intros Hcap E.
    pose proof (fallible_with_capacity_spec B T HW tsize talign Hts Hta cap ar f Hcap) as H.
    rewrite E in H. destruct tr; cbn [fwc_post] in H; try contradiction.
    destruct H as (Hs & Hit & Hocc & Hgl & Hc & _ & Hhow).
    split; [reflexivity|]. split; [exact Hs|].
    split.
    { destruct Hhow as [(_ & -> & _) | (_ & _ & HAl & _)]; [left; reflexivity|right; exact HAl]. }
    split; [exact Hit|]. split; [exact Hocc|]. split; [lia|].
    destruct Hhow as [(Hc0 & -> & ->) | (Hnz & _ & (Hm & _) & _ & len & al & off & _ & -> & Hv)].
    - split; [intros _; split; reflexivity|intros C; contradiction].
    - split; [intros C; contradiction|]. intros _. split; [exact Hm|].
      exists len, al. split; [reflexivity|exact Hv].
  Qed.

  (* while there is room, RawTable::insert completes in place: no allocator event, no unwinding,
     no failure, whatever the hash and the value, whether or not the allocator would refuse *)
  Theorem insert_with_room t hash value ar : SafeWF B T t -> OWN t -> 0 < growth_left t ->
    exists t' s, INSERT t hash value ar = Ok (t', [], false, Some s) /\
      SafeWF B T t' /\ OWN t' /\ mask t' = mask t /\ items t' = items t + 1 /\
      growth_left t - 1 <= growth_left t' <= growth_left t /\
      Permutation (occupants T t') (value :: occupants T t).
  Proof.
    intros Hsafe HA Hg.
    assert (Hm : mask t <> 0%nat) by exact (growth_pos_mask B T t Hsafe Hg).
    destruct (SafeWF_alloc B T t Hsafe Hm) as (HS & HM & HC).
    destruct (find_insert_slot_terminates B T HW HB t HS HM HC hash) as (s & Efis & Hs & Hsp).
    unfold Raw.insert. rewrite Efis. cbn [bind].
    assert (Hlen : (s < length (ctrl t))%nat) by (destruct HS as (_ & Hl & _); lia).
    rewrite (ctrl_at_byte T t s Hlen). cbn [bind].
    destruct (Z.eqb_spec (growth_left t) 0) as [C|_]; [lia|]. cbn [andb].
    destruct (insert_in_slot_safe B T HW t s hash value Hsafe Hm Hs Hsp ltac:(intros _; exact Hg))
      as (t2 & Eins & Hs2 & Em2 & Eit2 & _ & _ & _ & Egl & Hperm2).
    rewrite Eins. cbn [bind]. exists t2, s. split; [reflexivity|]. split; [exact Hs2|].
    split; [exact (TOwn_same_mask B T tsize talign t t2 Em2 HA)|]. split; [exact Em2|].
    split; [exact Eit2|]. split; [|exact Hperm2].
    rewrite Egl. destruct (is_empty (byte T t s)); lia.
  Qed.

  (* a sequence of inserts: (hash, value, "the allocator would refuse") *)
  Inductive inserts : table T -> list (Z * T * bool) -> table T -> list (event T) -> Prop :=
  | ins_nil t : inserts t [] t []
  | ins_cons t hash value ar t1 evs1 unw r l t2 evs2 :
      INSERT t hash value ar = Ok (t1, evs1, unw, r) -> inserts t1 l t2 evs2 ->
      inserts t ((hash, value, ar) :: l) t2 (evs1 ++ evs2).

  (* C08: ANY sequence of at most growth_left inserts runs to completion ... *)
  Theorem inserts_with_room : forall l t, SafeWF B T t -> OWN t -> zn (length l) <= growth_left t ->
    exists t', inserts t l t' [].
  Proof.
    induction l as [|[[hash value] ar] l IH]; intros t Hsafe HA Hg.
    - exists t. constructor.
    - cbn [length] in Hg. assert (Hg1 : 0 < growth_left t) by (unfold zn in *; lia).
      destruct (insert_with_room t hash value ar Hsafe HA Hg1) as (t1 & s & E & Hs1 & HA1 & _ & _ & Hgl & _).
      destruct (IH t1 Hs1 HA1 ltac:(unfold zn in *; lia)) as (t' & Hins).
      exists t'. change (@nil (event T)) with (@nil (event T) ++ []).
      exact (ins_cons t hash value ar t1 [] false (Some s) l t' [] E Hins).
  Qed.

  (* ... and performs no allocator call at all: no event whatsoever, same block *)
  Theorem no_alloc_while_room t l t' evs : SafeWF B T t -> OWN t -> zn (length l) <= growth_left t ->
    inserts t l t' evs ->
    evs = [] /\ mask t' = mask t /\ SafeWF B T t' /\ OWN t' /\
    items t' = items t + zn (length l) /\
    growth_left t - zn (length l) <= growth_left t' <= growth_left t.
  Proof.
    intros Hsafe HA Hg Hins. induction Hins as [t|t hash value ar t1 evs1 unw r l t2 evs2 E Hins IH].
    - cbn [length]. change (zn 0) with 0. repeat split; try assumption; lia.
    - cbn [length] in Hg |- *. assert (Hg1 : 0 < growth_left t) by (unfold zn in *; lia).
      destruct (insert_with_room t hash value ar Hsafe HA Hg1)
        as (t1' & s & E' & Hs1 & HA1 & Em1 & Eit1 & Hgl & _).
      rewrite E' in E. inversion E; subst.
      destruct (IH Hs1 HA1 ltac:(unfold zn in *; lia)) as (-> & Em & Hs2 & HA2 & Eit & Hgl2).
      split; [reflexivity|]. split; [congruence|]. split; [exact Hs2|]. split; [exact HA2|].
      unfold zn in *. split; lia.
  Qed.
End Churn.

Print Assumptions grow_target_doubles.
Print Assumptions grow_target_buckets.
Print Assumptions grow_target_bound.
Print Assumptions first_alloc_buckets.
Print Assumptions reserve_growth.
Print Assumptions insert_growth.
Print Assumptions insert_growth_ok.
Print Assumptions foi_growth.
Print Assumptions foi_growth_ok.
Print Assumptions insert_Bounded.
Print Assumptions foi_Bounded.
Print Assumptions churn_invariant.
Print Assumptions churn_bounded.
Print Assumptions Bounded_buckets.
Print Assumptions Bounded_buckets_max.
Print Assumptions Bounded_allocation_size.
Print Assumptions with_capacity_contract.
Print Assumptions insert_with_room.
Print Assumptions inserts_with_room.
Print Assumptions no_alloc_while_room.
