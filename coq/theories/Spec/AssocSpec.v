(* AssocSpec.v -- the reference semantics of HashMap: an association list with unique keys.
   It is written as an ACCEPTOR: given the abstract contents, the operation and the output the
   implementation produced, it returns the new abstract contents if that output is allowed and
   None otherwise (iteration order and the choice of drained / extracted elements are the only
   freedom the implementation has). *)
From Coq Require Import ZArith List Bool Lia.
From HB Require Import RsPrelude Gen Group Raw Map.
Import ListNotations.
Open Scope Z_scope.

Definition spec := list kv.

Fixpoint lookup (s : spec) (k : Z) : option kv :=
  match s with [] => None | e :: r => if k_id e =? k then Some e else lookup r k end.
Fixpoint delete (s : spec) (k : Z) : spec :=
  match s with [] => [] | e :: r => if k_id e =? k then delete r k else e :: delete r k end.
Definition put (s : spec) (e : kv) : spec := e :: delete s (k_id e).

Definition kv_eqb (a b : kv) : bool :=
  (k_id a =? k_id b) && (k_stamp a =? k_stamp b) && (v_val a =? v_val b).

(* l is a duplicate-free list of elements of s *)
Fixpoint sublist_of (l : list kv) (s : spec) : option spec :=     (* returns s minus l *)
  match l with
  | [] => Some s
  | e :: r => match lookup s (k_id e) with
              | Some e' => if kv_eqb e e' then sublist_of r (delete s (k_id e)) else None
              | None => None
              end
  end.

Definition same_set (l : list kv) (s : spec) : bool :=
  match sublist_of l s with Some [] => true | _ => false end.

Definition insert_like (s : spec) (k stamp v : Z) : spec :=
  match lookup s k with
  | Some e => put s (mkKV k (k_stamp e) v)           (* keeps the originally stored key *)
  | None => put s (mkKV k stamp v)
  end.

Definition out_eqb (a b : out) : bool :=
  match a, b with
  | OutUnit, OutUnit | OutNone, OutNone => true
  | OutVal x, OutVal y => x =? y
  | OutKV a1 a2, OutKV b1 b2 => (a1 =? b1) && (a2 =? b2)
  | OutBool x, OutBool y => Bool.eqb x y
  | OutNum x, OutNum y => x =? y
  | OutErrOccupied a1 a2, OutErrOccupied b1 b2 => (a1 =? b1) && (a2 =? b2)
  | _, _ => false
  end.

Definition expect (o want : out) (s' : spec) : option spec := if out_eqb o want then Some s' else None.

(* spec_accepts s op o = Some s'  <=>  from contents s, operation op may produce output o,
   leaving contents s'.  An operation that unwound (OutUnwind) is judged by unwind_accepts. *)
Definition spec_accepts (s : spec) (op : map_op) (o : out) : option spec :=
  match op with
  | OpWithCapacity _ => expect o OutUnit []
  | OpInsert k stamp v =>
      expect o (match lookup s k with Some e => OutVal (v_val e) | None => OutNone end) (insert_like s k stamp v)
  | OpGet k => expect o (match lookup s k with Some e => OutVal (v_val e) | None => OutNone end) s
  | OpGetKeyValue k => expect o (match lookup s k with Some e => OutKV (k_stamp e) (v_val e) | None => OutNone end) s
  | OpContains k => expect o (OutBool (match lookup s k with Some _ => true | None => false end)) s
  | OpGetMut k nv =>
      match lookup s k with
      | Some e => expect o (OutVal (v_val e)) (put s (mkKV k (k_stamp e) nv))
      | None => expect o OutNone s
      end
  | OpRemove k =>
      match lookup s k with
      | Some e => expect o (OutVal (v_val e)) (delete s k)
      | None => expect o OutNone s
      end
  | OpRemoveEntry k | OpEntryRemove k _ =>
      match lookup s k with
      | Some e => expect o (OutKV (k_stamp e) (v_val e)) (delete s k)
      | None => expect o OutNone s
      end
  | OpTryInsert k stamp v =>
      match lookup s k with
      | Some e => expect o (OutErrOccupied (k_stamp e) (v_val e)) s
      | None => expect o OutNone (put s (mkKV k stamp v))
      end
  | OpEntryOrInsert k stamp v =>
      match lookup s k with
      | Some e => expect o (OutVal (v_val e)) s
      | None => expect o (OutVal v) (put s (mkKV k stamp v))
      end
  | OpEntryInsert k stamp v =>
      match lookup s k with
      | Some e => expect o (OutVal (v_val e)) (put s (mkKV k (k_stamp e) v))
      | None => expect o OutNone (put s (mkKV k stamp v))
      end
  | OpEntryAndModify k stamp add v =>
      match lookup s k with
      | Some e => let nv := wadd 64 (v_val e) add in expect o (OutVal nv) (put s (mkKV k (k_stamp e) nv))
      | None => expect o (OutVal v) (put s (mkKV k stamp v))
      end
  | OpEntryDrop k _ => expect o (OutBool (match lookup s k with Some _ => true | None => false end)) s
  | OpClear => expect o OutUnit []
  | OpReserve _ | OpShrinkTo _ | OpShrinkToFit => expect o OutUnit s
  | OpTryReserve _ => match o with OutTry _ => Some s | _ => None end
  | OpRetain keep bump =>
      expect o OutUnit
        (flat_map (fun e => if existsb (Z.eqb (k_id e)) keep
                            then [mkKV (k_id e) (k_stamp e) (wadd 64 (v_val e) bump)] else []) s)
  | OpExtend kvs =>
      expect o OutUnit (fold_left (fun acc e => insert_like acc (k_id e) (k_stamp e) (v_val e)) kvs s)
  | OpDrain n =>
      match o with
      | OutList l =>
          if Nat.eqb (length l) (Nat.min n (length s)) then
            match sublist_of l s with Some _ => Some [] | None => None end
          else None
      | _ => None
      end
  | OpExtractIf sel n =>
      match o with
      | OutList l =>
          let selected := filter (fun e => existsb (Z.eqb (k_id e)) sel) s in
          if Nat.eqb (length l) (Nat.min n (length selected)) then
            match sublist_of l selected with
            | Some _ => sublist_of l s
            | None => None
            end
          else None
      | _ => None
      end
  | OpIter | OpIterFold _ =>
      match o with OutList l => if same_set l s then Some s else None | _ => None end
  | OpLen => expect o (OutNum (Z.of_nat (length s))) s
  | OpCapacity => match o with OutNum n => if Z.of_nat (length s) <=? n then Some s else None | _ => None end
  | OpAllocationSize => match o with OutNum _ => Some s | _ => None end
  | OpDropMap => expect o OutUnit []
  | OpSetInsert k stamp =>
      match lookup s k with
      | Some _ => expect o (OutBool false) s
      | None => expect o (OutBool true) (put s (mkKV k stamp 0))
      end
  | OpSetReplace k stamp =>
      match lookup s k with
      | Some e => expect o (OutKV (k_stamp e) 0) (put s (mkKV k stamp (v_val e)))     (* the new object is stored *)
      | None => expect o OutNone (put s (mkKV k stamp 0))
      end
  | OpSetTake k =>
      match lookup s k with
      | Some e => expect o (OutKV (k_stamp e) 0) (delete s k)
      | None => expect o OutNone s
      end
  | OpSetGet k => expect o (match lookup s k with Some e => OutKV (k_stamp e) 0 | None => OutNone end) s
  | OpSetGetOrInsert k stamp =>
      match lookup s k with
      | Some e => expect o (OutKV (k_stamp e) 0) s                                   (* keeps the old one *)
      | None => expect o (OutKV stamp 0) (put s (mkKV k stamp 0))
      end
  | OpSetGetOrInsertWith k stamp fk =>
      match lookup s k with
      | Some e => expect o (OutKV (k_stamp e) 0) s
      | None => if fk =? k then expect o (OutKV stamp 0) (put s (mkKV k stamp 0))
                else match o with OutLibPanic => Some s | _ => None end        (* refuses a non-equivalent value *)
      end
  | OpSetToggle k stamp =>
      match lookup s k with
      | Some _ => expect o (OutBool false) (delete s k)
      | None => expect o (OutBool true) (put s (mkKV k stamp 0))
      end
  | OpSetRemove k =>
      match lookup s k with
      | Some _ => expect o (OutBool true) (delete s k)
      | None => expect o (OutBool false) s
      end
  end.

(* After an operation unwound with a user panic (C04): every element still present must be an
   element of the pre-state (same stored key object; retain / and_modify may already have
   changed its value) or one of the elements the operation was inserting, each key at most once.
   Elements of the pre-state that are missing must have been dropped exactly once: that part is
   checked by the harness registry (leak / double-drop accounting), not here. *)
Fixpoint nodup_keys (l : list kv) : bool :=
  match l with
  | [] => true
  | e :: r => negb (existsb (fun x => k_id x =? k_id e) r) && nodup_keys r
  end.

Definition op_new_elems (op : map_op) : list kv :=
  match op with
  | OpInsert k st v | OpTryInsert k st v | OpEntryOrInsert k st v | OpEntryInsert k st v => [mkKV k st v]
  | OpSetInsert k st | OpSetReplace k st | OpSetGetOrInsert k st | OpSetGetOrInsertWith k st _ | OpSetToggle k st => [mkKV k st 0]
  | OpEntryAndModify k st _ v => [mkKV k st v]
  | OpExtend kvs => kvs
  | _ => []
  end.

Definition value_may_change (op : map_op) : bool :=
  match op with
  | OpRetain _ _ | OpEntryAndModify _ _ _ _ | OpGetMut _ _ | OpExtend _ | OpInsert _ _ _ | OpEntryInsert _ _ _ => true
  | _ => false
  end.

Definition unwind_accepts (s : spec) (op : map_op) (post : list kv) : bool :=
  nodup_keys post &&
  forallb (fun e =>
             match lookup s (k_id e) with
             | Some e' => (k_stamp e =? k_stamp e') && (value_may_change op || (v_val e =? v_val e'))
             | None => existsb (fun x => (k_id x =? k_id e) && (k_stamp x =? k_stamp e)) (op_new_elems op)
             end) post.
