(* AccessTable.v -- hand-written specification for property C16.

   One line per PUBLIC type of hashbrown::{hash_map, hash_set, hash_table} (and their rayon
   adaptors): for each type parameter, which kind of access a value of the type gives to values of
   that parameter.  This is the "what the type hands out" side of the property; what the source
   *declares* (fields, unsafe impls) is in Gen/GenTypes.v, and Properties/C16.v relates the two.

     Owning     the type owns values of P (it can drop them or move them out)
     Exclusive  the type holds the unique borrow of values of P and can write through it
                (&mut V, or a &mut to the whole collection: insert / remove / replace)
     UniqRO     the type holds the unique borrow of the collection containing P but only lets
                the holder *read* P (the keys of IterMut, the hasher of a raw entry, the allocator
                of a drain).  Nobody else can touch P meanwhile, so moving the handle to another
                thread is sound if P is Send (like a &mut P that is only read) or if P is Sync
                (like a &P); the property therefore asks for  Send P \/ Sync P.
     Shared     the type holds a shared borrow: it can read P, and so can others
     NoAccess   the parameter only appears in the type; no value of P can be reached through it

   Required by the property ("only when the key, value, hasher and allocator types it gives access
   to allow it"):

     X : Send  needs   Shared P -> P : Sync;   Exclusive P \/ Owning P -> P : Send;
                       UniqRO P -> P : Send \/ P : Sync
     X : Sync  needs   P : Sync for every P with any access (a &X gives at most shared access)

   and a parameter with Exclusive access must be invariant (a covariant &mut would let a
   short-lived value be written where a long-lived one is expected).  Owning, Shared and UniqRO
   parameters may be covariant.

   Lines are conservative: when in doubt the stronger access is claimed (which makes the theorem
   harder).  The lines marked (?) are the ones the author was least sure about; see the notes. *)
From Coq Require Import String List Bool.
Import ListNotations.
Open Scope string_scope.

Inductive access := NoAccess | Shared | UniqRO | Exclusive | Owning.

Definition access_eqb (a b : access) : bool :=
  match a, b with
  | NoAccess, NoAccess | Shared, Shared | UniqRO, UniqRO | Exclusive, Exclusive | Owning, Owning => true
  | _, _ => false
  end.

(* what sending / sharing the handle needs of a parameter with (Send, Sync) bits b *)
Definition send_req (a : access) (b : bool * bool) : bool :=
  match a with
  | NoAccess => true
  | Shared => snd b
  | UniqRO => fst b || snd b
  | Exclusive | Owning => fst b
  end.

Definition sync_req (a : access) (b : bool * bool) : bool :=
  match a with
  | NoAccess => true
  | _ => snd b
  end.

(* (declaration name as in GenTypes.v, [(parameter, access)] in declaration order) *)
Definition row := (string * list (string * access))%type.

Definition O4 := [("K", Owning); ("V", Owning); ("S", Owning); ("A", Owning)].
Definition X4 := [("K", Exclusive); ("V", Exclusive); ("S", Exclusive); ("A", Exclusive)].
Definition X3set := [("T", Exclusive); ("S", Exclusive); ("A", Exclusive)].
Definition Sh3set := [("T", Shared); ("S", Shared); ("A", Shared)].

Definition access_table : list row := [
  (* ------------------------------------------------------------------ hash_map *)
  (* the map owns its keys, values, hasher and allocator *)
  ("map::HashMap", O4);
  (* iter(): (&K, &V) out of a &HashMap *)
  ("map::Iter", [("K", Shared); ("V", Shared)]);
  (* iter_mut(): (&K, &mut V) out of a &mut HashMap; keys are read-only but uniquely borrowed *)
  ("map::IterMut", [("K", UniqRO); ("V", Exclusive)]);
  (* into_iter() / into_keys() / into_values(): own the table, its contents and its allocation *)
  ("map::IntoIter", [("K", Owning); ("V", Owning); ("A", Owning)]);
  ("map::IntoKeys", [("K", Owning); ("V", Owning); ("A", Owning)]);
  ("map::IntoValues", [("K", Owning); ("V", Owning); ("A", Owning)]);
  (* keys() / values(): a wrapped Iter; the other component is still borrowed (and Debug reads it) *)
  ("map::Keys", [("K", Shared); ("V", Shared)]);
  ("map::Values", [("K", Shared); ("V", Shared)]);
  (* drain(): yields owned (K, V); the table (and so the allocator) is uniquely borrowed but the
     allocator is never used through the drain (?) *)
  ("map::Drain", [("K", Owning); ("V", Owning); ("A", UniqRO)]);
  (* extract_if(f): holds &mut RawTable; passes (&K, &mut V) to f, yields owned (K, V); owns f.
     K and A are claimed Exclusive because the handle is a &mut to the table that contains them *)
  ("map::ExtractIf", [("K", Exclusive); ("V", Exclusive); ("F", Owning); ("A", Exclusive)]);
  (* values_mut(): a wrapped IterMut *)
  ("map::ValuesMut", [("K", UniqRO); ("V", Exclusive)]);
  (* entry(k): both variants hold &mut HashMap (insert, remove, replace_key, get_mut ..);
     the vacant one also owns a K *)
  ("map::Entry", X4);
  ("map::OccupiedEntry", X4);
  ("map::VacantEntry", X4);
  (* entry_ref(&q): as Entry, plus a shared &Q *)
  ("map::EntryRef", [("K", Exclusive); ("Q", Shared); ("V", Exclusive); ("S", Exclusive); ("A", Exclusive)]);
  ("map::VacantEntryRef", [("K", Exclusive); ("Q", Shared); ("V", Exclusive); ("S", Exclusive); ("A", Exclusive)]);
  (* try_insert error: an OccupiedEntry plus the rejected (owned) value *)
  ("map::OccupiedError", X4);
  (* raw_entry_mut(): &mut HashMap *)
  ("raw_entry::RawEntryBuilderMut", X4);
  (* raw entries: &mut RawTable<(K,V),A> and a shared &S that was re-borrowed from the unique
     borrow of the map (?): the hasher is read-only but nobody else can reach it meanwhile *)
  ("raw_entry::RawEntryMut", [("K", Exclusive); ("V", Exclusive); ("S", UniqRO); ("A", Exclusive)]);
  ("raw_entry::RawOccupiedEntryMut", [("K", Exclusive); ("V", Exclusive); ("S", UniqRO); ("A", Exclusive)]);
  ("raw_entry::RawVacantEntryMut", [("K", Exclusive); ("V", Exclusive); ("S", UniqRO); ("A", Exclusive)]);
  (* raw_entry(): &HashMap *)
  ("raw_entry::RawEntryBuilder", [("K", Shared); ("V", Shared); ("S", Shared); ("A", Shared)]);
  (* rustc_entry(k): &mut RawTable<(K,V),A> (no hasher); the vacant one owns a K *)
  ("rustc_entry::RustcEntry", [("K", Exclusive); ("V", Exclusive); ("A", Exclusive)]);
  ("rustc_entry::RustcOccupiedEntry", [("K", Exclusive); ("V", Exclusive); ("A", Exclusive)]);
  ("rustc_entry::RustcVacantEntry", [("K", Exclusive); ("V", Exclusive); ("A", Exclusive)]);
  (* ------------------------------------------------------------------ hash_set *)
  ("set::HashSet", [("T", Owning); ("S", Owning); ("A", Owning)]);
  (* iter(): &T *)
  ("set::Iter", [("K", Shared)]);
  ("set::IntoIter", [("K", Owning); ("A", Owning)]);
  (* drain(): as map::Drain (?) *)
  ("set::Drain", [("K", Owning); ("A", UniqRO)]);
  (* extract_if(f): &mut RawTable, yields owned T, owns f *)
  ("set::ExtractIf", [("K", Exclusive); ("F", Owning); ("A", Exclusive)]);
  (* lazy set algebra: an Iter over one set and a & to the other one (its hasher is used for lookups) *)
  ("set::Intersection", Sh3set);
  ("set::Difference", Sh3set);
  ("set::SymmetricDifference", Sh3set);
  ("set::Union", Sh3set);
  (* entry(t): wrapped map entries: &mut HashMap<T, (), S, A>; elements are never handed out
     mutably but can be removed / replaced / inserted, so Exclusive *)
  ("set::Entry", X3set);
  ("set::OccupiedEntry", X3set);
  ("set::VacantEntry", X3set);
  (* ------------------------------------------------------------------ hash_table *)
  ("table::HashTable", [("T", Owning); ("A", Owning)]);
  (* entry / find_entry: &mut HashTable (get_mut, remove, insert) *)
  ("table::Entry", [("T", Exclusive); ("A", Exclusive)]);
  ("table::OccupiedEntry", [("T", Exclusive); ("A", Exclusive)]);
  ("table::VacantEntry", [("T", Exclusive); ("A", Exclusive)]);
  ("table::AbsentEntry", [("T", Exclusive); ("A", Exclusive)]);
  (* iter(): &T;  iter_mut(): &mut T;  iter_hash(h): &T;  iter_hash_mut(h): &mut T *)
  ("table::Iter", [("T", Shared)]);
  ("table::IterMut", [("T", Exclusive)]);
  ("table::IterHash", [("T", Shared)]);
  ("table::IterHashMut", [("T", Exclusive)]);
  ("table::IntoIter", [("T", Owning); ("A", Owning)]);
  (* drain(): as map::Drain (?) *)
  ("table::Drain", [("T", Owning); ("A", UniqRO)]);
  (* extract_if(f): &mut RawTable, passes &mut T to f, yields owned T, owns f *)
  ("table::ExtractIf", [("T", Exclusive); ("F", Owning); ("A", Exclusive)]);
  (* ------------------------------------------------------------------ rayon: hash_map::rayon *)
  (* par_iter / par_keys / par_values: (&K, &V) *)
  ("rayon::map::ParIter", [("K", Shared); ("V", Shared)]);
  ("rayon::map::ParKeys", [("K", Shared); ("V", Shared)]);
  ("rayon::map::ParValues", [("K", Shared); ("V", Shared)]);
  (* par_iter_mut / par_values_mut: (&K, &mut V) out of a &mut HashMap *)
  ("rayon::map::ParIterMut", [("K", UniqRO); ("V", Exclusive)]);
  ("rayon::map::ParValuesMut", [("K", UniqRO); ("V", Exclusive)]);
  (* into_par_iter(): owns the table *)
  ("rayon::map::IntoParIter", [("K", Owning); ("V", Owning); ("A", Owning)]);
  (* par_drain(): yields owned (K, V).  The source declares it Send with no condition on A; the
     drain never touches the allocator (it only resets control bytes), so NoAccess (?) *)
  ("rayon::map::ParDrain", [("K", Owning); ("V", Owning); ("A", NoAccess)]);
  (* ------------------------------------------------------------------ rayon: hash_set::rayon *)
  ("rayon::set::IntoParIter", [("T", Owning); ("A", Owning)]);
  ("rayon::set::ParDrain", [("T", Owning); ("A", NoAccess)]);
  ("rayon::set::ParIter", [("T", Shared)]);
  (* parallel set algebra: two &HashSet *)
  ("rayon::set::ParDifference", Sh3set);
  ("rayon::set::ParSymmetricDifference", Sh3set);
  ("rayon::set::ParIntersection", Sh3set);
  ("rayon::set::ParUnion", Sh3set);
  (* ------------------------------------------------------------------ rayon: hash_table::rayon *)
  ("rayon::table::ParIter", [("T", Shared)]);
  ("rayon::table::ParIterMut", [("T", Exclusive)]);
  ("rayon::table::IntoParIter", [("T", Owning); ("A", Owning)]);
  ("rayon::table::ParDrain", [("T", Owning); ("A", NoAccess)])
].
