(* MultisetSpec.v -- reference semantics of HashTable (explicit-hash API): a multiset of elements.
   Acceptor style: given the abstract contents before the call, the operation, the result the
   implementation returned and the contents it holds afterwards, decide whether that is allowed.
   The freedom the implementation has: WHICH of several matching elements a lookup returns,
   iteration order, which elements a partial drain / extract_if takes. *)
From Coq Require Import ZArith List Bool Lia.
From HB Require Import RsPrelude Gen Group Raw Map Table AssocSpec.
Import ListNotations.
Open Scope Z_scope.

Definition mset := list kv.

Fixpoint remove_one (e : kv) (s : mset) : option mset :=
  match s with
  | [] => None
  | x :: r => if kv_eqb e x then Some r else match remove_one e r with Some r' => Some (x :: r') | None => None end
  end.

(* s minus l (as multisets); None if l is not a sub-multiset *)
Fixpoint msub (s : mset) (l : list kv) : option mset :=
  match l with
  | [] => Some s
  | e :: r => match remove_one e s with Some s' => msub s' r | None => None end
  end.

Definition meq (a b : mset) : bool := match msub a b with Some [] => true | _ => false end.

Section Spec.
  Variable hash_of : Z -> option Z.

  Definition same_hash (a b : Z) : bool :=
    match hash_of a, hash_of b with Some x, Some y => x =? y | _, _ => false end.

  (* must be found: an element inserted with the queried hash that satisfies the closure *)
  Definition must_find (s : mset) (hk : Z) (p : tpred) : bool :=
    existsb (fun e => same_hash (k_id e) hk && tpred_holds p e) s.

  Definition bump (add : Z) (e : kv) : kv := mkKV (k_id e) (k_stamp e) (wadd 64 (v_val e) add).

  Fixpoint opts_ok (s : mset) (reqs : list (Z * tpred)) (os : list (option kv)) (add : Z) : option mset :=
    (* consumes the bumped elements from the (already bumped) post multiset description:
       returns the multiset of pre-elements that were handed out *)
    match reqs, os with
    | [], [] => Some []
    | (hk, p) :: r, None :: os' => if must_find s hk p then None else opts_ok s r os' add
    | (hk, p) :: r, Some e' :: os' =>
        (* e' is the element after the write; its pre-image has value e'.val - add *)
        let pre := mkKV (k_id e') (k_stamp e') (wsub 64 (v_val e') add) in
        if tpred_holds p pre then
          match opts_ok s r os' add with Some l => Some (pre :: l) | None => None end
        else None
    | _, _ => None
    end.

  Definition tspec_accepts (s : mset) (op : tbl_op) (o : tout) (post : mset) : bool :=
    match op, o with
    | TWithCapacity _, TOutUnit => meq post []
    | TFind hk p, TOutNone => negb (must_find s hk p) && meq post s
    | TFind hk p, TOutElem e => tpred_holds p e && (match remove_one e s with Some _ => true | None => false end) && meq post s
    | TFindMut hk p _, TOutNone => negb (must_find s hk p) && meq post s
    | TFindMut hk p nv, TOutElem e =>
        tpred_holds p e && match remove_one e s with Some s' => meq post (mkKV (k_id e) (k_stamp e) nv :: s') | None => false end
    | TFindEntryRemove hk p, TOutNone => negb (must_find s hk p) && meq post s
    | TFindEntryRemove hk p, TOutElem e =>
        tpred_holds p e && match remove_one e s with Some s' => meq post s' | None => false end
    | TRemoveReinsert hk p _ _, TOutNone => negb (must_find s hk p) && meq post s
    | TRemoveReinsert hk p stamp v, TOutElem e =>
        tpred_holds p e && match remove_one e s with Some s' => meq post (mkKV (k_id e) stamp v :: s') | None => false end
    | TEntryInsert k stamp v, TOutBool occ =>
        if occ then existsb (fun e => (k_id e =? k) && match remove_one e s with Some s' => meq post (mkKV k stamp v :: s') | None => false end) s
        else negb (existsb (fun e => k_id e =? k) s) && meq post (mkKV k stamp v :: s)
    | TEntryOrInsert k stamp v, TOutElem e =>
        if existsb (fun x => k_id x =? k) s
        then (k_id e =? k) && (match remove_one e s with Some _ => true | None => false end) && meq post s
        else kv_eqb e (mkKV k stamp v) && meq post (mkKV k stamp v :: s)
    | TEntryDrop k, TOutBool occ => Bool.eqb occ (existsb (fun x => k_id x =? k) s) && meq post s
    | TInsertUnique k stamp v, TOutUnit => meq post (mkKV k stamp v :: s)
    | TRetain keep add, TOutUnit =>
        meq post (map (bump add) (filter (fun e => existsb (Z.eqb (k_id e)) keep) s))
    | TExtractIf sel n, TOutList l =>
        let selected := filter (fun e => existsb (Z.eqb (k_id e)) sel) s in
        Nat.eqb (length l) (Nat.min n (length selected)) &&
        (match msub selected l with Some _ => true | None => false end) &&
        (match msub s l with Some s' => meq post s' | None => false end)
    | TDrain n, TOutList l =>
        Nat.eqb (length l) (Nat.min n (length s)) && (match msub s l with Some _ => true | None => false end) && meq post []
    | TClear, TOutUnit => meq post []
    | (TReserve _ | TShrinkTo _ | TShrinkToFit), TOutUnit => meq post s
    | TTryReserve _, TOutTry _ => meq post s
    | TGetManyMut reqs add, TOutOpts os =>
        match opts_ok s reqs os add with
        | Some handed => match msub s handed with Some rest => meq post (map (bump add) handed ++ rest) | None => false end
        | None => false
        end
    | TGetManyMut reqs add, TOutLibPanic =>
        (* allowed only if two requests can resolve to the same stored element *)
        meq post s &&
        existsb (fun e => Nat.leb 2 (length (filter (fun r => tpred_holds (snd r) e) reqs))) s
    | TIterHash hk, TOutList l =>
        (match msub s l with Some rest => negb (existsb (fun e => same_hash (k_id e) hk) rest) | None => false end) && meq post s
    | TIter, TOutList l => meq l s && meq post s
    | TLen, TOutNum n => (n =? Z.of_nat (length s)) && meq post s
    | TCapacity, TOutNum n => (Z.of_nat (length s) <=? n) && meq post s
    | TAllocationSize, TOutNum _ => meq post s
    | TDropTable, TOutUnit => meq post []
    | _, _ => false
    end.
End Spec.
